"""
Seams: every source of nondeterminism / fault that the gffutils properties depend on
is intercepted here, at the *stdlib* boundary, so that /repo needs no hook.

  sqlite3.connect      -> SimConnection (real engine, real files; timeout=0)
  tempfile names       -> deterministic candidate sequence per node
  builtins.open        -> FileProxy for paths inside the WORLD
  os.unlink            -> point
  shutil.copy2         -> point
  gc                   -> disabled in nodes; the scheduler issues gc events

`point(kind, detail)` is the single choke point.  It never draws randomness and never
reads a clock.  It (1) counts, (2) logs, (3) parks the node in lock-step mode, and
(4) fires the fault planned for this point of the current operation.
"""
import builtins
import errno
import os
import shutil
import sqlite3
import tempfile

_real_connect = sqlite3.connect
_real_open = builtins.open
_real_unlink = os.unlink
_real_remove = os.remove
_real_copy2 = shutil.copy2
_real_os_write = os.write
_real_NamedTemporaryFile = tempfile.NamedTemporaryFile


class SourceError(Exception):
    """Raised by an instrumented feature source at a planned position."""


class TornWrite(BaseException):
    """Internal: tells the writing seam to write half of the data and kill the process."""


def _torn(fh, data):
    try:
        fh.write(data[: len(data) // 2])
        fh.flush()
    finally:
        c = CTX
        if c is not None and c.on_crash is not None:
            c.on_crash(c.n - 1, "fs.write")
        os._exit(137)


class Ctx(object):
    """Per-node simulation context."""

    def __init__(self, world, node_id):
        self.world = world
        self.node = node_id
        self.active = False  # True only while an operation of the workload runs
        self.n = 0  # point index inside the current operation
        self.total = 0  # points since node start
        self.kind_n = {}  # per-kind counters inside the current operation
        self.log = []  # (kind, detail) of the current operation
        self.faults = []  # fault specs of the current operation
        self.fired = []  # faults that actually fired (this operation)
        self.park = None  # callable(kind, detail) in lock-step mode
        self.park_kinds = ()
        self.trace_sql = False
        self.sql_trace = []  # statements sqlite really ran (trace callback)
        self.conns = 0
        self.tmp_serial = 0
        self.tmp_names = None  # explicit candidate-name list (else t0000, t0001, ...)
        self.fail_lines = {}  # basename -> line index at which reading raises
        self.kind_hist = {}  # kind -> count since node start (evidence)
        self.short_writes = False  # buggify: os.write() on files in the WORLD performs a (legal) short write

    def begin_op(self, faults):
        self.active = True
        self.n = 0
        self.kind_n = {}
        self.log = []
        self.faults = list(faults or [])
        self.fired = []
        self.sql_trace = []

    def end_op(self):
        self.active = False


CTX = None

_ERR_FOR_KIND = {
    "sql": lambda: sqlite3.OperationalError("disk I/O error"),
    "commit": lambda: sqlite3.OperationalError("database or disk is full"),
    "fs.open": lambda: OSError(errno.EIO, "Input/output error (injected)"),
    "fs.write": lambda: OSError(errno.ENOSPC, "No space left on device (injected)"),
    "fs.read": lambda: OSError(errno.EIO, "Input/output error (injected)"),
    "fs.close": lambda: OSError(errno.ENOSPC, "No space left on device (injected)"),
    "fs.tmpname": lambda: OSError(errno.ENOSPC, "No space left on device (injected)"),
    "fs.unlink": lambda: OSError(errno.EIO, "Input/output error (injected)"),
    "fs.copy": lambda: OSError(errno.ENOSPC, "No space left on device (injected)"),
}


def _match(spec, idx, kind, kind_idx):
    if "at" in spec:
        return spec["at"] == idx
    if "kind" in spec:
        return spec["kind"] == kind and spec.get("nth", 0) == kind_idx
    return False


def point(kind, detail=""):
    c = CTX
    if c is None or not c.active:
        return
    idx = c.n
    c.n += 1
    c.total += 1
    kidx = c.kind_n.get(kind, 0)
    c.kind_n[kind] = kidx + 1
    c.kind_hist[kind] = c.kind_hist.get(kind, 0) + 1
    c.log.append((kind, detail))
    if c.park is not None and kind in c.park_kinds:
        c.park(kind, detail)
    if c.faults:
        for spec in c.faults:
            if _match(spec, idx, kind, kidx):
                _fire(c, spec, idx, kind, detail)


def _fire(c, spec, idx, kind, detail):
    mode = spec.get("mode", "error")
    if mode == "crash":
        c.fired.append({"at": idx, "kind": kind, "mode": mode})
        if c.on_crash is not None:
            c.on_crash(idx, kind)
        os._exit(137)
    if mode == "cancel":
        c.fired.append({"at": idx, "kind": kind, "mode": mode})
        e = KeyboardInterrupt("injected cancel at point %d (%s)" % (idx, kind))
        e._gffsim = True
        raise e
    if mode == "torn":
        # a write that is cut short by the death of the process: the writer performs half of it, then _exit
        if kind != "fs.write":
            return
        c.fired.append({"at": idx, "kind": kind, "mode": mode})
        raise TornWrite()
    if mode == "locked":
        # sqlite's answer when another connection holds a conflicting lock and the busy timeout expires
        if kind not in ("sql", "commit"):
            return
        c.fired.append({"at": idx, "kind": kind, "mode": mode})
        e = sqlite3.OperationalError("database is locked")
        e._gffsim = True
        raise e
    if mode == "error":
        mk = _ERR_FOR_KIND.get(kind)
        if mk is None:
            return  # e.g. 'committed', 'fs.copied', 'src': no error can be raised there
        c.fired.append({"at": idx, "kind": kind, "mode": mode})
        e = mk()
        e._gffsim = True
        raise e


Ctx.on_crash = None


# --------------------------------------------------------------------------- sqlite


def _sql_detail(sql):
    toks = sql.split(None, 3)
    if not toks:
        return ""
    head = toks[0].upper()
    if head in ("INSERT", "DELETE", "UPDATE", "SELECT", "CREATE", "DROP", "PRAGMA", "ANALYZE"):
        low = sql.lower()
        for t in ("features", "relations", "duplicates", "autoincrements", "directives", "meta"):
            if t in low:
                return head + " " + t
    return head


class SimCursor(sqlite3.Cursor):
    def execute(self, sql, *args):
        point("sql", _sql_detail(sql))
        return super().execute(sql, *args)

    def executemany(self, sql, *args):
        point("sql", "MANY " + _sql_detail(sql))
        return super().executemany(sql, *args)

    def executescript(self, sql):
        point("sql", "SCRIPT " + _sql_detail(sql))
        return super().executescript(sql)


class SimConnection(sqlite3.Connection):
    def cursor(self, factory=SimCursor):
        return super().cursor(factory)

    def commit(self):
        point("commit", "")
        r = super().commit()
        point("committed", "")
        return r


def _trace_cb(stmt):
    c = CTX
    if c is not None and c.active and c.trace_sql:
        c.sql_trace.append(stmt)


def sim_connect(database, *args, **kwargs):
    c = CTX
    if c is None or not c.active:
        return _real_connect(database, *args, **kwargs)
    kwargs.setdefault("factory", SimConnection)
    # busy timeout 0: any lock wait (the only timer in gffutils' world) becomes an
    # immediate, deterministic OperationalError("database is locked")
    kwargs["timeout"] = 0
    point("sql.connect", os.path.basename(str(database)))
    conn = _real_connect(database, *args, **kwargs)
    c.conns += 1
    if c.trace_sql:
        conn.set_trace_callback(_trace_cb)
    return conn


# --------------------------------------------------------------------------- files


class FileProxy(object):
    """Delegating wrapper around a real text file inside the WORLD."""

    def __init__(self, fh, base, fail_line=None):
        self._fh = fh
        self._base = base
        self._line = 0
        self._fail_line = fail_line

    @property
    def name(self):
        return self._fh.name

    def write(self, s):
        try:
            point("fs.write", self._base)
        except TornWrite:
            _torn(self._fh, s)
        return self._fh.write(s)

    def _before_line(self):
        if self._fail_line is not None and self._line == self._fail_line:
            point("src.raise", self._base)
            e = OSError(errno.EIO, "Input/output error (injected source failure)")
            e._gffsim = True
            raise e
        point("fs.read", self._base)
        self._line += 1

    def __iter__(self):
        return self

    def __next__(self):
        self._before_line()
        return next(self._fh)

    def readline(self, *a):
        self._before_line()
        return self._fh.readline(*a)

    def read(self, *a):
        point("fs.read", self._base)
        return self._fh.read(*a)

    def close(self):
        point("fs.close", self._base)
        return self._fh.close()

    def __enter__(self):
        return self

    def __exit__(self, *exc):
        # no fault on the implicit close during exception unwinding
        if exc[0] is None:
            point("fs.close", self._base)
        self._fh.close()
        return False

    def __getattr__(self, name):
        return getattr(self._fh, name)


def _in_world(c, path):
    return isinstance(path, str) and path.startswith(c.world)


def sim_open(file, mode="r", *args, **kwargs):
    c = CTX
    if c is None or not c.active or not _in_world(c, file):
        return _real_open(file, mode, *args, **kwargs)
    base = os.path.basename(file)
    point("fs.open", base + ":" + mode)
    fh = _real_open(file, mode, *args, **kwargs)
    if "b" in mode:
        return fh
    return FileProxy(fh, base, c.fail_lines.get(base))


def sim_unlink(path, *args, **kwargs):
    c = CTX
    if c is not None and c.active and _in_world(c, os.fspath(path) if not isinstance(path, int) else ""):
        point("fs.unlink", os.path.basename(path))
    return _real_unlink(path, *args, **kwargs)


def sim_remove(path, *args, **kwargs):
    c = CTX
    if c is not None and c.active and _in_world(c, os.fspath(path) if not isinstance(path, int) else ""):
        point("fs.unlink", os.path.basename(path))
    return _real_remove(path, *args, **kwargs)


def sim_copy2(src, dst, *args, **kwargs):
    c = CTX
    if c is None or not c.active or not _in_world(c, dst):
        return _real_copy2(src, dst, *args, **kwargs)
    point("fs.copy", os.path.basename(dst))
    r = _real_copy2(src, dst, *args, **kwargs)
    point("fs.copied", os.path.basename(dst))
    return r


class TmpProxy(object):
    """Wraps the object returned by tempfile.NamedTemporaryFile so that its writes are seam points."""

    def __init__(self, tf):
        object.__setattr__(self, "_tf", tf)

    def write(self, data):
        try:
            point("fs.write", "tmpcopy")
        except TornWrite:
            _torn(self._tf, data)
        return self._tf.write(data)

    def __getattr__(self, name):
        return getattr(self._tf, name)

    def __enter__(self):
        self._tf.__enter__()
        return self

    def __exit__(self, *a):
        return self._tf.__exit__(*a)


def sim_NamedTemporaryFile(*args, **kwargs):
    tf = _real_NamedTemporaryFile(*args, **kwargs)
    c = CTX
    if c is None or not c.active:
        return tf
    return TmpProxy(tf)


def sim_os_write(fd, data):
    c = CTX
    if c is not None and c.active and c.short_writes and len(data) > 1:
        try:
            target = os.readlink("/proc/self/fd/%d" % fd)
        except OSError:
            target = ""
        if target.startswith(c.world):
            point("fs.write", "os.write")
            return _real_os_write(fd, data[: max(1, len(data) // 2)])  # a short write is legal behaviour of write(2)
    return _real_os_write(fd, data)


class DetNames(object):
    """Deterministic replacement for tempfile._RandomNameSequence.

    By default every node produces the *same* sequence t0000, t0001, ... which is the
    worst legal behaviour of a random name generator (maximal collisions between
    processes sharing a temp dir); O_EXCL in tempfile must sort it out.
    """

    def __iter__(self):
        return self

    def __next__(self):
        c = CTX
        if c is None:
            return "x%08d" % os.getpid()
        k = c.tmp_serial
        c.tmp_serial += 1
        if c.tmp_names is not None:
            name = c.tmp_names[k] if k < len(c.tmp_names) else "n%d_%04d" % (c.node, k)
        else:
            name = "t%04d" % k
        point("fs.tmpname", name)
        return name


_installed = False


def install():
    """Install the seams process-wide (inert while no context is active)."""
    global _installed
    if _installed:
        return
    sqlite3.connect = sim_connect
    builtins.open = sim_open
    os.unlink = sim_unlink
    os.remove = sim_remove
    shutil.copy2 = sim_copy2
    os.write = sim_os_write
    tempfile.NamedTemporaryFile = sim_NamedTemporaryFile
    _installed = True


def enter_node(world, node_id):
    """Called in a freshly forked node."""
    global CTX
    import gc

    gc.disable()
    CTX = Ctx(world, node_id)
    tempfile.tempdir = os.path.join(world, "tmp")
    os.environ["TMPDIR"] = tempfile.tempdir
    tempfile._name_sequence = DetNames()
    return CTX
