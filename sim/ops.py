"""
Operation executor that runs *inside a node*.  Ops are JSON-serialisable dicts (they
are what replay files contain); this module turns them into calls of the real
gffutils API and returns plain-data results.
"""
import gc
import gzip
import os
import sys
import weakref

from . import seams
from . import env
from .seams import point, SourceError

import gffutils
from gffutils import feature as gfeature
from gffutils import iterators as giterators
from gffutils import merge_criteria as mc
from gffutils import interface as ginterface


class NodeState(object):
    def __init__(self, world, node_id, ctx):
        self.world = world
        self.node_id = node_id
        self.ctx = ctx
        self.h = {}  # handles
        self.objs = {}  # named python objects kept between ops (merge outputs ...)
        self.ledgers = {}  # source delivery ledgers
        self.serial = 0
        self.allow_prelude = True
        self.prelude_done = False


def _path(st, name):
    if name == ":memory:":
        return name
    return os.path.join(st.world, env.decorate(name))


# ----------------------------------------------------------------------------- sources


class OneShot(object):
    """A one-shot iterator (has __next__) with a delivery ledger."""

    def __init__(self, items, ledger, fail_at=None, eof_at=None):
        self._items = items
        self._k = 0
        self._led = ledger
        self._fail_at = fail_at
        self._eof_at = eof_at
        self._done = False

    def __iter__(self):
        return self

    def __next__(self):
        if self._done:
            self._led["after_stop"] += 1
            raise StopIteration
        k = self._k
        if k == self._fail_at:
            self._done = True
            point("src.raise", str(k))
            e = SourceError("injected source failure at item %d" % k)
            e._gffsim = True
            raise e
        if k >= len(self._items) or k == self._eof_at:
            self._done = True
            self._led["stops"] += 1
            raise StopIteration
        point("src", str(k))
        self._k += 1
        self._led["pulled"].append(k)
        return self._items[k]


def _gen(items, ledger, fail_at, eof_at, touch=None):
    for k, it in enumerate(items):
        if touch is not None:
            # the caller's generator reads from the very handle that is being updated
            db, keys = touch
            for key in keys:
                try:
                    db[key]
                except Exception:
                    pass
        if k == eof_at:
            break
        if k == fail_at:
            point("src.raise", str(k))
            e = SourceError("injected source failure at item %d" % k)
            e._gffsim = True
            raise e
        point("src", str(k))
        ledger["pulled"].append(k)
        yield it
    else:
        if fail_at is not None and fail_at >= len(items):
            point("src.raise", str(len(items)))
            e = SourceError("injected source failure at end of input")
            e._gffsim = True
            raise e
    ledger["stops"] += 1


def _features_from_lines(lines):
    out = []
    for ln in lines:
        out.append(gfeature.feature_from_line(ln))
    return out


def make_transform(st, spec, ledger):
    """Instrumented transform callables (spec is a small JSON value)."""
    if spec is None:
        return None
    kind = spec["kind"]

    def t(f):
        ledger["calls"].append(_fkey(f))
        if spec.get("raise_once_at") is not None and len(ledger["calls"]) == spec["raise_once_at"] and not ledger.get("raised"):
            # the user's callback fails on this item, once (a transient failure: the caller will try again)
            ledger["raised"] = True
            raise SourceError("user transform failed on item %d" % spec["raise_once_at"])
        if kind == "identity":
            return f
        if kind == "drop_type":
            if f.featuretype == spec["type"]:
                return None if spec.get("falsy", "none") == "none" else False
            return f
        if kind == "drop_every":
            n = len(ledger["calls"])
            if (n - 1) % spec["n"] == spec.get("r", 0):
                return {"none": None, "false": False, "zero": 0, "empty": ""}[spec.get("falsy", "none")]
            return f
        if kind == "shift":
            if f.start is not None:
                f.start += spec["by"]
                f.end += spec["by"]
            return f
        if kind == "tag":
            f.attributes[spec.get("key", "tag")] = [spec.get("val", "x")]
            return f
        if kind == "retype":
            if f.featuretype == spec["from"]:
                f.featuretype = spec["to"]
            return f
        if kind == "append_inplace":
            # edits a value list in place (no assignment through the mapping)
            if spec["key"] in f.attributes:
                f.attributes[spec["key"]].append(spec["val"])
            return f
        if kind == "delete_delivered":
            # the caller modifies the SOURCE database while it is being read: features that were already
            # delivered are deleted from it
            delivered = ledger.setdefault("delivered_ids", [])
            if f.id is not None:
                delivered.append(f.id)
            if len(ledger["calls"]) == spec["at"] and len(delivered) > spec.get("n", 10):
                st.h[spec["h"]].delete(delivered[: spec.get("n", 10)], make_backup=False)
                ledger["deleted_from_source"] = spec.get("n", 10)
            return f
        raise ValueError(kind)

    return t


def _fkey(f):
    return "%s|%s|%s|%s|%s" % (f.seqid, f.featuretype, f.start, f.end, ";".join(
        "%s=%s" % (k, ",".join(v)) for k, v in f.attributes.items()))


def make_id_spec(spec):
    if isinstance(spec, list):
        return [make_id_spec(x) if isinstance(x, dict) else x for x in spec]
    if spec is None or isinstance(spec, str):
        return spec
    if isinstance(spec, dict) and "callable" in spec:
        name = spec["callable"]
        if name == "none":
            return lambda f: None
        if name == "auto_seqid":
            return lambda f: "autoincrement:" + f.seqid
        if name == "auto_const":
            return lambda f: "autoincrement:" + spec.get("base", "k")
        if name == "auto_colon":
            return lambda f: "autoincrement:" + f.seqid + ":" + f.featuretype
        if name == "name_or_none":
            def g(f):
                try:
                    return f.attributes[spec.get("key", "Name")][0]
                except (KeyError, IndexError):
                    return None
            return g
        if name == "name_or_auto":
            def g2(f):
                try:
                    return f.attributes[spec.get("key", "Name")][0]
                except (KeyError, IndexError):
                    return "autoincrement:" + spec.get("base", "z")
            return g2
        if name == "empty":
            return lambda f: ""
        raise ValueError(name)
    if isinstance(spec, dict):
        return dict(spec)
    raise ValueError(spec)


def make_source(st, spec, led_name):
    """Returns (data argument, extra kwargs, post-hook info)."""
    form = spec["form"]
    led = {"pulled": [], "after_stop": 0, "stops": 0, "calls": []}
    st.ledgers[led_name] = led
    fail_at = spec.get("fail_at")
    eof_at = spec.get("eof_at")
    kw = {}
    if form == "existing":
        return os.path.join(st.world, "in", spec["name"]), kw
    if form in ("path", "gz"):
        name = spec.get("name", "in_%s_%d.gff" % (led_name, st.serial))
        st.serial += 1
        p = os.path.join(st.world, "in", name + (".gz" if form == "gz" and not name.endswith(".gz") else ""))
        os.makedirs(os.path.dirname(p), exist_ok=True)
        if form == "gz":
            data = env.text(spec["text"]).encode(spec.get("encoding", "utf-8"))
            k = max(1, int(spec.get("members", 1)))
            lines_ = data.splitlines(True)
            step = max(1, (len(lines_) + k - 1) // k)
            with seams._real_open(p, "wb") as raw:
                for a in range(0, max(1, len(lines_)), step):
                    # each chunk is a complete gzip member (what `cat a.gz b.gz`, bgzip or appending produces)
                    with gzip.GzipFile(fileobj=raw, mode="wb", mtime=0) as fh:
                        fh.write(b"".join(lines_[a:a + step]))
        else:
            with seams._real_open(p, "wb") as fh:
                fh.write(env.text(spec["text"]).encode(spec.get("encoding", "utf-8")))
        if fail_at is not None:
            st.ctx.fail_lines[os.path.basename(p)] = fail_at
        return p, kw
    if form == "string":
        kw["from_string"] = True
        return env.text(spec["text"]), kw
    feats = _features_from_lines(spec["lines"])
    if form == "objs":
        # Feature objects built in code (no dialect of their own), as a program that computes features would hand them over
        built = []
        for f0 in feats:
            built.append(gfeature.Feature(seqid=f0.seqid, source=f0.source, featuretype=f0.featuretype, start=f0.start, end=f0.end,
                                          score=f0.score, strand=f0.strand, frame=f0.frame,
                                          attributes=dict((k_, list(v_)) for k_, v_ in f0.attributes.items())))
        return built, kw
    if form == "list":
        return feats, kw
    if form == "gen":
        touch = None
        if spec.get("touch"):
            touch = (st.h[spec["touch"]["h"]], list(spec["touch"]["keys"]))
        return _gen(feats, led, fail_at, eof_at, touch), kw
    if form == "iter1":
        return OneShot(feats, led, fail_at, eof_at), kw
    raise ValueError(form)


# ----------------------------------------------------------------------------- dumps


def fdict(f, with_line=True, scribble=False):
    # print first: printing a feature must not change what it holds
    line = str(f) if with_line else None
    d = {
        "id": f.id,
        "cols": [f.seqid, f.source, f.featuretype, f.start, f.end, f.score, f.strand, f.frame],
        "attrs": [[k, list(v) if isinstance(v, (list, tuple)) else [v]] for k, v in f.attributes.items()],
        "extra": list(f.extra),
        "bin": f.bin,
    }
    if with_line:
        d["line"] = line
        d["line2"] = str(f)
    if scribble:
        _scribble(f)
    return d


def _scribble(f):
    """What callers do with a feature they were handed: edit it in memory and throw it away.  Nothing of it may
    ever be seen again (no cache, no shared list, no write-back)."""
    try:
        for k in list(f.attributes.keys()):
            v = f.attributes[k]
            if isinstance(v, list):
                v.append("~scribble")
        f.attributes["~scribble"] = ["1"]
        if isinstance(f.extra, list):
            f.extra.append("~s")
        f.seqid = "~"
        f.start = 1
        f.end = 2
        f.strand = "~"
        f.id = "~"
    except Exception:
        pass


def api_dump(db, relations=True):
    feats = [fdict(f, scribble=True) for f in db.all_features()]
    out = {"features": feats, "directives": list(db.directives), "dialect": db.dialect}
    if relations:
        rel = {}
        for fd in feats:
            i = fd["id"]
            rel[i] = {
                "c1": sorted(x.id for x in db.children(i, level=1)),
                "c2": sorted(x.id for x in db.children(i, level=2)),
                "p1": sorted(x.id for x in db.parents(i, level=1)),
                "p2": sorted(x.id for x in db.parents(i, level=2)),
            }
        out["rel"] = rel
    return out


# ----------------------------------------------------------------------------- ops

CRITERIA = {
    "seqid": mc.seqid,
    "strand": mc.strand,
    "feature_type": mc.feature_type,
    "exact": mc.exact_coordinates_only,
    "end_inc": mc.overlap_end_inclusive,
    "start_inc": mc.overlap_start_inclusive,
    "any_inc": mc.overlap_any_inclusive,
}


def _criteria(spec):
    if spec is None:
        return None
    out = []
    for s in spec:
        if isinstance(s, str):
            out.append(CRITERIA[s])
        else:
            name, thr = s
            if name == "max_members":
                out.append(lambda acc, cur, components, k=thr: len(components) < k)
                continue
            if name == "raise_after":
                # a user's criterion that fails on its k-th call and accepts every pair before that
                def failing(acc, cur, components, k=thr, n=[0]):
                    n[0] += 1
                    if n[0] >= k:
                        raise RuntimeError("criterion failed")
                    return True
                out.append(failing)
                continue
            out.append({"end_thr": mc.overlap_end_threshold, "start_thr": mc.overlap_start_threshold,
                        "any_thr": mc.overlap_any_threshold}[name](thr))
    return out


def _create_kwargs(st, op, led_name, is_update=False):
    kw = env.create_kw(dict(op.get("kw") or {}), None if (op.get("from_db") or op.get("no_env")) else op.get("data"), is_update)
    if "id_spec" in op:
        kw["id_spec"] = make_id_spec(op["id_spec"])
    if op.get("transform") is not None:
        kw["transform"] = make_transform(st, op["transform"], st.ledgers[led_name])
    if op.get("explicit_dialect"):
        # the caller states the dialect instead of letting the importer infer it: the one its first feature line shows
        d = _first_line_dialect(op.get("data") or {})
        if d is not None:
            if op["explicit_dialect"] == "no_order":
                d.pop("order", None)  # a hand-written dialect
            kw["dialect"] = d
    return kw


def _first_line_dialect(spec):
    lines = spec["text"].split("\n") if "text" in spec else list(spec.get("lines") or [])
    for ln in lines:
        if not ln.strip() or ln.startswith("#"):
            continue
        cols = ln.split("\t")
        if len(cols) >= 9:
            from gffutils import helpers as ghelpers
            return ghelpers.infer_dialect(cols[8])
        return None
    return None


class _warnings_as_errors(object):
    """`python -W error` / pytest filterwarnings=error for the duration of one call."""

    def __init__(self, on):
        self.on = on

    def __enter__(self):
        if self.on:
            import warnings
            self.cm = warnings.catch_warnings()
            self.cm.__enter__()
            warnings.simplefilter("error")

    def __exit__(self, *a):
        if self.on:
            self.cm.__exit__(*a)
        return False


def op_create(st, op):
    led = op.get("src", "s%d" % st.serial)
    data, skw = make_source(st, op["data"], led)
    kw = _create_kwargs(st, op, led)
    kw.update(skw)
    if op.get("wrap_dataiter"):
        di_kw = dict(op.get("di_kw") or {})
        for k in ("from_string",):
            if k in kw:
                di_kw[k] = kw.pop(k)
        if op.get("transform") is not None and op.get("transform_on", "dataiter") == "dataiter":
            di_kw["transform"] = kw.pop("transform")
        if "checklines" in kw:
            di_kw["checklines"] = kw["checklines"]
        data = giterators.DataIterator(data, **di_kw)
    if op.get("from_db"):
        data = st.h[op["from_db"]]
    if op.get("keep_data"):
        st.objs["data/" + op["keep_data"]] = data  # the caller keeps the iterator object and will use it again
    if op.get("use_data"):
        data = st.objs["data/" + op["use_data"]]
        for k in ("from_string", "transform", "checklines"):
            if op.get("use_data_bare"):
                kw.pop(k, None)
    with _warnings_as_errors(op.get("warn_error")):
        db = gffutils.create_db(data, _path(st, op["db"]), **kw)
    st.h[op["h"]] = db
    return {"ledger": st.ledgers.get(led)}


def op_open(st, op):
    db = gffutils.FeatureDB(_path(st, op["db"]), **env.open_kw(dict(op.get("kw") or {})))
    st.h[op["h"]] = db
    return {}


def op_drop(st, op):
    st.h.pop(op["h"], None)
    for k in list(st.objs):
        if k.startswith(op["h"] + "/"):
            del st.objs[k]
    return {}


def op_update(st, op):
    db = st.h[op["h"]]
    led = op.get("src", "s%d" % st.serial)
    data, skw = make_source(st, op["data"], led)
    kw = _create_kwargs(st, op, led, is_update=True)
    kw.update(skw)
    if op.get("from_db"):
        data = st.h[op["from_db"]]
    with _warnings_as_errors(op.get("warn_error")):
        r = db.update(data, **kw)
    return {"same": r is db, "ledger": st.ledgers.get(led)}


def _feat_or_id(db, i):
    try:
        return db[i]
    except gffutils.FeatureNotFoundError:
        return i


def op_delete(st, op):
    db = st.h[op["h"]]
    form = op.get("form", "str")
    ids = op["ids"]
    kw = dict(op.get("kw") or {})
    if form == "str":
        arg = ids[0]
    elif form == "strs":
        arg = list(ids)
    elif form == "feature":
        arg = _feat_or_id(db, ids[0])
    elif form == "features":
        arg = [_feat_or_id(db, i) for i in ids]
    elif form == "gen":
        arg = (x for x in [_feat_or_id(db, i) for i in ids])
    elif form == "gen_raise":
        # the caller's iterable delivers its items and then fails
        def _failing(items):
            for x in items:
                yield x
            raise SourceError("the iterable given to delete() failed")
        arg = _failing([_feat_or_id(db, i) for i in ids])
    else:
        raise ValueError(form)
    r = db.delete(arg, **kw)
    return {"same": r is db}


def op_add_relation(st, op):
    db = st.h[op["h"]]
    kw = {}
    cf = op.get("child_func")
    if cf == "assign_child":
        kw["child_func"] = ginterface.assign_child
    elif cf == "set_parent":
        def child_func(parent, child):
            child.attributes["Parent"] = [parent.id]
            return child
        kw["child_func"] = child_func
    elif cf == "move":
        by = op.get("by", 0)

        def child_func2(parent, child):
            child.start += by
            child.end += by
            return child
        kw["child_func"] = child_func2
    elif cf in ("retype", "reseq"):
        to = op["to"]

        def child_func4(parent, child, what=cf):
            if what == "retype":
                child.featuretype = to
            else:
                child.seqid = to
            return child
        kw["child_func"] = child_func4
    elif cf == "raise":
        def child_func3(parent, child):
            raise ValueError("user child_func failed")
        kw["child_func"] = child_func3
    pf = op.get("parent_func")
    if pf == "stretch":
        def parent_func2(parent, child):
            if parent.start is not None and child.start is not None:
                parent.start = min(parent.start, child.start)
                parent.end = max(parent.end, child.end) + 1
            return parent
        kw["parent_func"] = parent_func2
    if pf == "tag":
        def parent_func(parent, child):
            parent.attributes["child"] = [child.id]
            return parent
        kw["parent_func"] = parent_func
    parent, child = op["parent"], op["child"]
    if op.get("as_feature"):
        parent, child = db[parent], db[child]
    r = db.add_relation(parent, child, op["level"], **kw)
    return {"same": r is db}


def op_gc(st, op):
    n = gc.collect()
    return {"collected": n}


def op_dump(st, op):
    db = st.h[op["h"]]
    return {"dump": api_dump(db, relations=op.get("relations", True))}


def op_conn_state(st, op):
    db = st.h[op["h"]]
    return {"in_transaction": db.conn.in_transaction, "total_changes": db.conn.total_changes}


def op_get(st, op):
    db = st.h[op["h"]]
    key = op["key"]
    if op.get("as_feature"):
        key = db[key]
    f = db[key]
    return {"f": fdict(f, scribble=True)}


def _consume(it, how):
    """how: 'all' | int (take k then abandon, keeping the generator alive) | 'close'"""
    if how == "all" or how is None:
        return [x for x in it], None
    out = []
    k = int(how)
    it = iter(it)
    for x in it:
        out.append(x)
        if len(out) >= k:
            break
    return out, it


def op_read(st, op):
    """Generic read-style call: method name + args; results as ids / plain values."""
    db = st.h[op["h"]]
    m = op["m"]
    a = list(op.get("args") or [])
    kw = dict(op.get("kw") or {})
    for k in ("featuretype", "order_by", "limit", "region"):
        if isinstance(kw.get(k), list):
            kw[k] = tuple(kw[k])
    if op.get("region_feature"):
        rf = op["region_feature"]
        kw["region"] = gfeature.Feature(seqid=rf[0], start=rf[1], end=rf[2], strand=rf[3] if len(rf) > 3 else ".")
    how = op.get("consume", "all")
    keep = None
    if m in ("all_features", "features_of_type", "children", "parents", "region"):
        res, keep = _consume(getattr(db, m)(*a, **kw), how)
        out = [x.id for x in res] if not op.get("full") else [fdict(x) for x in res]
        for x in res:
            _scribble(x)
    elif m in ("count_features_of_type",):
        out = db.count_features_of_type(*a, **kw)
    elif m in ("featuretypes", "seqids"):
        out = list(getattr(db, m)())
    elif m == "getitem":
        out = fdict(db[a[0]], scribble=True)
    elif m == "iter_by_parent_childs":
        res, keep = _consume(db.iter_by_parent_childs(*a, **kw), how)
        out = [[x.id for x in grp] for grp in res]
    elif m == "interfeatures":
        feats = list(db.all_features(**(op.get("sel") or {})))
        res, keep = _consume(db.interfeatures(feats, **kw), how)
        out = [fdict(x) for x in res]
    elif m in ("create_introns", "create_splice_sites"):
        res, keep = _consume(getattr(db, m)(**kw), how)
        out = [fdict(x) for x in res]
    elif m == "merge":
        feats = list(db.all_features(**(op.get("sel") or {"order_by": ["seqid", "start"]})))
        crit = _criteria(op.get("criteria"))
        mkw = {} if crit is None else {"merge_criteria": crit}
        res, keep = _consume(db.merge(feats, **mkw), how)
        out = [dict(fdict(x, with_line=False), children=[c.id for c in x.children]) for x in res]
    elif m == "children_bp":
        crit = _criteria(op.get("criteria"))
        if crit is not None:
            kw["merge_criteria"] = crit
        out = db.children_bp(*a, **kw)
    elif m == "bed12":
        out = db.bed12(*a, **kw)
    elif m == "dump":
        out = api_dump(db)
    else:
        raise ValueError(m)
    if keep is not None:
        st.objs["%s/gen%d" % (op["h"], len(st.objs))] = keep  # abandoned generator stays alive
    return {"out": out}


def op_interleave(st, op):
    """Several lazy result generators alive on ONE handle, advanced one item at a time in a
    given schedule (the interleaving a caller produces by nesting or zipping iterations)."""
    db = st.h[op["h"]]
    gens = []
    for q in op["queries"]:
        kw = dict(q.get("kw") or {})
        for k in ("featuretype", "order_by", "limit", "region"):
            if isinstance(kw.get(k), list):
                kw[k] = tuple(kw[k])
        a = [tuple(x) if isinstance(x, list) else x for x in (q.get("args") or [])]
        gens.append(iter(getattr(db, q["m"])(*a, **kw)))
    outs = [[] for _ in gens]
    done = [False] * len(gens)

    def step(i):
        if done[i]:
            return
        try:
            x = next(gens[i])
            outs[i].append(x.id if hasattr(x, "id") else x)
        except StopIteration:
            done[i] = True
        for pk in op.get("poke") or ():
            # a one-shot call made between two steps (what the body of a `for t in db.featuretypes():` loop does)
            r = getattr(db, pk["m"])(*(pk.get("args") or []))
            if not isinstance(r, (int, str)):
                list(r)

    for i in op["schedule"]:
        step(i % len(gens))
    for i in range(len(gens)):
        while not done[i]:
            step(i)
    return {"outs": outs}


def op_merge(st, op):
    """db.merge over a selection; outputs kept for re-merging."""
    db = st.h[op["h"]]
    if op.get("reuse"):
        feats = st.objs[op["h"] + "/" + op["reuse"]]
        if op.get("reuse_outputs"):
            pass
    else:
        sel = dict(op.get("sel") or {})
        for k in ("featuretype", "order_by"):
            if isinstance(sel.get(k), list):
                sel[k] = tuple(sel[k])
        if "ids" in op:
            feats = [db[i] for i in op["ids"]]
        else:
            feats = list(db.all_features(**sel))
    before = [fdict(f) for f in feats]
    crit = _criteria(op.get("criteria"))
    mkw = {} if crit is None else {"merge_criteria": crit}
    res = list(db.merge(feats, **mkw))
    after = [fdict(f) for f in feats]
    st.objs[op["h"] + "/" + op.get("save", "m")] = feats
    st.objs[op["h"] + "/" + op.get("save", "m") + "_out"] = res
    out = []
    for x in res:
        d = fdict(x, with_line=False)
        d["children"] = [c.id for c in x.children]
        d["child_idx"] = [next((i for i, f in enumerate(feats) if f is c), -1) for c in x.children]
        d["self_idx"] = next((i for i, f in enumerate(feats) if f is x), -1)
        out.append(d)
    return {"inputs_before": before, "inputs_after": after, "out": out}


def op_iterate_with_delete(st, op):
    """Full iteration; after `at` items the caller deletes `n` already delivered features through the same handle."""
    db = st.h[op["h"]]
    ids = []
    deleted = []
    for f in db.all_features():
        ids.append(f.id)
        if len(ids) == op["at"] and not deleted:
            deleted = ids[: op["n"]]
            db.delete(list(deleted), make_backup=False)
    return {"ids": ids, "deleted": deleted}


def _query_kw(kw):
    kw = dict(kw or {})
    for k in ("featuretype", "order_by", "limit", "region"):
        if isinstance(kw.get(k), list):
            kw[k] = tuple(kw[k])
    return kw


def op_deferred_read(st, op):
    """A query result is obtained but not read; the caller deletes features through the same handle; only then is the
    result read.  Also answers the same query in full before the result is obtained and after it was read."""
    db = st.h[op["h"]]
    q = lambda: getattr(db, op["m"])(*op.get("args", []), **_query_kw(op.get("kw")))
    before = [f.id for f in q()]
    pending = q()
    db.delete(list(op["ids"]), make_backup=False)
    got = [f.id for f in pending]
    after = [f.id for f in q()]
    return {"before": before, "got": got, "after": after}


def op_merge_interleave(st, op):
    """Several merge() generators alive on one handle, advanced alternately."""
    db = st.h[op["h"]]
    gens = []
    inputs = []
    for q in op["merges"]:
        sel = dict(q.get("sel") or {})
        for k in ("featuretype", "order_by"):
            if isinstance(sel.get(k), list):
                sel[k] = tuple(sel[k])
        feats = list(db.all_features(**sel))
        inputs.append([fdict(f, with_line=False) for f in feats])
        crit = _criteria(q.get("criteria"))
        mkw = {} if crit is None else {"merge_criteria": crit}
        gens.append(db.merge(feats, **mkw))
    outs = [[] for _ in gens]
    done = [False] * len(gens)

    def step(i):
        if done[i]:
            return
        try:
            x = next(gens[i])
            d = fdict(x, with_line=False)
            d["children"] = [c.id for c in x.children]
            outs[i].append(d)
        except StopIteration:
            done[i] = True

    for i in op["schedule"]:
        step(i % len(gens))
    for i in range(len(gens)):
        while not done[i]:
            step(i)
    return {"inputs": inputs, "outs": outs}


def op_update_merged(st, op):
    """db.update(<multi-member outputs of db.merge(...)>): merged features get their ids from the handle's
    in-memory counters and are then stored."""
    db = st.h[op["h"]]
    feats = list(db.all_features(featuretype=op["ftype"], order_by=("seqid", "strand", "start")))
    res = [m for m in db.merge(feats) if m.children]
    out = []
    for m in res:
        d = fdict(m, with_line=False)
        d["children"] = [c.id for c in m.children]
        out.append(d)
    if res:
        db.update(res, merge_strategy="create_unique", make_backup=False)
    return {"merged": out}


def op_merge_all(st, op):
    db = st.h[op["h"]]
    kw = dict(op.get("kw") or {})
    if "featuretypes_groups" in kw:
        kw["featuretypes_groups"] = tuple(tuple(g) if isinstance(g, list) else g for g in kw["featuretypes_groups"])
    crit = _criteria(op.get("criteria"))
    if crit is not None:
        kw["merge_criteria"] = crit
    res = db.merge_all(**kw)
    out = []
    for x in res:
        d = fdict(x, with_line=False)
        d["children"] = [c.id for c in x.children]
        out.append(d)
    return {"out": out}


def op_dataiter(st, op):
    """Iterate a DataIterator directly (C13/C14): returns features + directives."""
    led = op.get("src", "s%d" % st.serial)
    data, skw = make_source(st, op["data"], led)
    kw = dict(op.get("kw") or {})
    kw.update(skw)
    if op.get("transform") is not None:
        kw["transform"] = make_transform(st, op["transform"], st.ledgers[led])
    it = giterators.DataIterator(data, **kw)
    passes = []
    peek_dirs = list(it.directives)
    if op.get("abandon") is not None:
        # an unfinished pass kept alive while a later complete pass runs, then dropped and collected
        g = iter(it)
        for _ in range(op["abandon"]):
            try:
                next(g)
            except StopIteration:
                break
        feats = [fdict(f) for f in it]
        d1 = list(it.directives)
        del g
        gc.collect()
        return {"passes": [{"features": feats, "directives": d1}, {"features": feats, "directives": list(it.directives)}],
                "peek_directives": peek_dirs, "dialect": it.dialect, "ledger": st.ledgers.get(led)}
    if op.get("companion"):
        # another file is read by another iterator at the same time, the two advanced alternately (zip-style)
        comp = op["companion"]
        it2 = giterators.DataIterator(comp["text"], from_string=True)
        g1, g2 = iter(it), iter(it2)
        outs = ([], [])
        live = [True, True]
        sched = list(comp.get("schedule") or []) + [0, 1] * 100000
        for w in sched:
            if not (live[0] or live[1]):
                break
            if not live[w]:
                w = 1 - w
            try:
                f = next((g1, g2)[w])
                outs[w].append(fdict(f) if w == 0 else f.id)
            except StopIteration:
                live[w] = False
        return {"passes": [{"features": outs[0], "directives": list(it.directives)}], "peek_directives": peek_dirs, "dialect": it.dialect,
                "ledger": st.ledgers.get(led), "companion": {"ids": outs[1], "directives": list(it2.directives)}}
    for _ in range(op.get("passes", 1)):
        feats = [fdict(f) for f in it]
        passes.append({"features": feats, "directives": list(it.directives)})
    return {"passes": passes, "peek_directives": peek_dirs, "dialect": it.dialect,
            "ledger": st.ledgers.get(led)}


def op_dataiter_resume(st, op):
    """A DataIterator whose transform fails once on some item; the caller catches that and goes on iterating the SAME object."""
    led = op.get("src", "s%d" % st.serial)
    data, skw = make_source(st, op["data"], led)
    kw = dict(op.get("kw") or {})
    kw.update(skw)
    kw["transform"] = make_transform(st, op["transform"], st.ledgers[led])
    it = giterators.DataIterator(data, **kw)
    first, failed = [], False
    try:
        for f in it:
            first.append(_fkey(f))
    except SourceError:
        failed = True
    rest = [_fkey(f) for f in it]
    return {"first": first, "failed": failed, "rest": rest, "ledger": st.ledgers.get(led)}


def op_dataiter_pair(st, op):
    """Two iterators over the same from_string text alive at once; the first is dropped and collected
    before the second is read."""
    text = op["text"]
    kw = dict(op.get("kw") or {})
    it1 = giterators.DataIterator(text, from_string=True, **kw)
    it2 = giterators.DataIterator(text, from_string=True, **kw)
    n1 = None
    if op.get("read_first"):
        n1 = len(list(it1))
    del it1
    gc.collect()
    feats = [fdict(f) for f in it2]
    return {"n_first": n1, "features": feats, "directives": list(it2.directives)}


def op_inspect(st, op):
    from gffutils import inspect as ginspect

    led = op.get("src", "s%d" % st.serial)
    data, skw = make_source(st, op["data"], led)
    kw = dict(op.get("kw") or {})
    if op.get("from_db"):
        data = st.h[op["from_db"]]
    rest_n = None
    if op.get("via_dataiter"):
        # the caller inspects the head of a stream through an iterator of its own and then reads on from the same iterator
        data = giterators.DataIterator(data, checklines=0)
    out = ginspect.inspect(data, verbose=False, **kw)
    if op.get("via_dataiter"):
        rest_n = sum(1 for _ in data)
    return {"out": out, "ledger": st.ledgers.get(led), "rest_n": rest_n}


def op_export(st, op):
    """Write every feature of a handle, printed, to a file in the world (C01)."""
    db = st.h[op["h"]]
    p = os.path.join(st.world, "in", op["name"])
    with seams._real_open(p, "w", newline="") as fh:
        for d in db.directives:
            fh.write("##" + d + "\n")
        for f in db.all_features():
            fh.write(str(f) + "\n")
    return {}


def op_has(st, op):
    """Harness op: does the node still hold the named kept object?"""
    return {"has": op["name"] in st.objs}


def op_symlink(st, op):
    """Harness op: make <link> a symbolic link to <target> (both inside the world; the target need not exist yet)."""
    link, target = _path(st, op["link"]), _path(st, op["target"])
    os.makedirs(os.path.dirname(target), exist_ok=True)
    if os.path.lexists(link):
        os.unlink(link)
    os.symlink(target, link)
    return {}


def op_ls(st, op):
    d = os.path.join(st.world, op.get("dir", "tmp"))
    return {"files": sorted(os.listdir(d))}


OPS = {
    "create": op_create,
    "open": op_open,
    "drop": op_drop,
    "update": op_update,
    "delete": op_delete,
    "add_relation": op_add_relation,
    "gc": op_gc,
    "dump": op_dump,
    "conn_state": op_conn_state,
    "get": op_get,
    "read": op_read,
    "merge": op_merge,
    "interleave": op_interleave,
    "merge_all": op_merge_all,
    "update_merged": op_update_merged,
    "merge_interleave": op_merge_interleave,
    "iterate_with_delete": op_iterate_with_delete,
    "deferred_read": op_deferred_read,
    "dataiter": op_dataiter,
    "inspect": op_inspect,
    "dataiter_pair": op_dataiter_pair,
    "dataiter_resume": op_dataiter_resume,
    "export": op_export,
    "ls": op_ls,
    "symlink": op_symlink,
    "has": op_has,
}

HARNESS_OPS = ("dump", "conn_state", "ls", "gc", "drop", "export", "symlink", "has")


PRELUDE_GFF3 = """##gff-version 3
##prelude other-annotation
chrP\tpre\tgene\t1000\t9000\t.\t-\t.\tID=a;Name=n1
chrP\tpre\tmRNA\t1000\t9000\t.\t-\t.\tID=b;Parent=a
chrP\tpre\texon\t1000\t2000\t.\t-\t.\tID=c;Parent=b
chrP\talt\texon\t1000\t2000\t5\t-\t.\tID=c;Parent=b;note=y
chrP\tpre\texon\t140000\t150000\t.\t-\t.\tID=d;Parent=b
chrP\tpre\tCDS\t1500\t1800\t.\t-\t0\tParent=b
chrP\tpre\tgene\t1\t8\t.\t+\t.\tID=g
chrP\tpre\texon\t1\t4\t.\t+\t.\tID=i0;Parent=g
chrP\tpre\texon\t3\t8\t.\t+\t.\tID=i1;Parent=g
"""
PRELUDE_GTF = """chrP\tpre\texon\t7000\t7100\t.\t-\t.\tgene_id "G1"; transcript_id "T1";
chrP\tpre\texon\t7300\t7900\t.\t-\t.\tgene_id "G1"; transcript_id "T1";
chrP\tpre\texon\t8000\t8100\t.\t-\t.\tgene_id "G2"; transcript_id "T2";
chrP\tpre\tCDS\t8000\t8050\t.\t-\t0\tgene_id "G2"; transcript_id "T2";
"""


def run_prelude(st):
    """Process reuse (DESIGN 2.6b, knob `prelude`): before the first operation of the case this process has
    already done unrelated gffutils work - another annotation imported with other settings into its own
    files, queried, merged, inspected, one of its features edited in memory.  Nothing of that may show in
    what follows.  Runs outside any op window: no seam point is counted, parked or faulted; its own outcome
    is not judged."""
    import warnings
    from gffutils import inspect as ginspect

    d = os.path.join(st.world, "pre%d" % st.node_id)
    os.makedirs(d, exist_ok=True)
    gff = os.path.join(d, "other.gff3")
    gtf = os.path.join(d, "other.gtf")
    with seams._real_open(gff, "w") as fh:
        fh.write(PRELUDE_GFF3)
    with seams._real_open(gtf, "w") as fh:
        fh.write(PRELUDE_GTF)
    with warnings.catch_warnings():
        warnings.simplefilter("ignore")
        try:
            db = gffutils.create_db(gff, os.path.join(d, "other.db"), merge_strategy="merge", force_merge_fields=["source", "score"],
                                    id_spec=["ID", "Name"], keep_order=True, sort_attribute_values=True,
                                    pragmas={"synchronous": "OFF", "journal_mode": "WAL", "main.cache_size": 50})
            list(db.all_features(limit=("chrP", 1, 200000), completely_within=True, order_by=("length", "seqid"), reverse=True))
            list(db.region(region=("chrP", 1, 200000), completely_within=True, featuretype=["exon", "CDS"]))
            list(db.children("a", featuretype=["mRNA", "exon"], order_by="start"))
            list(db.parents("c", level=2))
            db.children_bp("g", child_featuretype="exon", merge=True)
            list(db.merge(db.features_of_type("exon", order_by=("seqid", "strand", "start"))))
            list(db.featuretypes())
            db.count_features_of_type("exon")
            for key in ("a", "b", "g"):
                f = db[key]
                f.attributes["ID"].append("scratch")  # edited in memory only, never written back
                f.attributes["Note"] = ["scratch"]
                f.start = 1
            db.update("chrP\tpre\tgene\t5\t6\t.\t+\t.\tID=a;Name=other\n", from_string=True, merge_strategy="replace", make_backup=False)
            db.delete(["d"], make_backup=False)
            ginspect.inspect(gff, verbose=False)
            it = giterators.DataIterator(gff)
            for _f in it:
                break
            st.objs["_prelude/it"] = it  # a partly consumed iterator of that other file stays alive
            db2 = gffutils.create_db(gtf, os.path.join(d, "other_gtf.db"))
            list(db2.all_features())
            db3 = gffutils.create_db([x for x in db.all_features()], ":memory:", merge_strategy="create_unique")
            list(db3.all_features())
        except Exception:
            pass
        try:
            # the same for the GTF importer: other keys for gene / transcript / subfeature, no id_spec of the caller's own
            gtf2 = os.path.join(d, "other_keys.gtf")
            with seams._real_open(gtf2, "w") as fh:
                fh.write('chrP\tpre\tCDS\t10\t20\t.\t+\t0\tlocus "L1"; tx "X1";\n'
                         'chrP\tpre\tCDS\t30\t40\t.\t+\t0\tlocus "L1"; tx "X1";\n'
                         'chrP\tpre\tCDS\t50\t60\t.\t+\t0\tlocus "L1"; tx "X2";\n')
            db4 = gffutils.create_db(gtf2, os.path.join(d, "other_keys.db"), gtf_gene_key="locus", gtf_transcript_key="tx",
                                     gtf_subfeature="CDS", merge_strategy="create_unique")
            list(db4.all_features())
            db4.update('chrP\tpre\tCDS\t70\t80\t.\t+\t0\tlocus "L2"; tx "X3";\n', from_string=True, gtf_gene_key="locus",
                       gtf_transcript_key="tx", gtf_subfeature="CDS", merge_strategy="create_unique", make_backup=False)
        except Exception:
            pass
    f = db = db2 = db3 = db4 = it = None
    gc.collect()
    env._used("prelude")


def execute(st, op):
    ctx = st.ctx
    name = op["op"]
    fn = OPS[name]
    if not st.prelude_done:
        st.prelude_done = True
        if st.allow_prelude and env.ENV.get("prelude"):
            run_prelude(st)
    ctx.begin_op(op.get("faults"))
    ctx.short_writes = bool(op.get("short_writes"))
    res = {"ok": True}
    try:
        try:
            r = fn(st, op)
            res.update(r or {})
        finally:
            ctx.end_op()
    except BaseException as e:  # includes KeyboardInterrupt (injected cancel)
        res = {
            "ok": False,
            "exc": type(e).__name__,
            "msg": str(e)[:300],
            "injected": bool(getattr(e, "_gffsim", False)),
        }
        if op.get("tb"):
            import traceback

            res["tb"] = traceback.format_exc()[-2000:]
        e = None
        if op.get("src") in st.ledgers:
            res["ledger"] = st.ledgers[op["src"]]
    res["points"] = ctx.n
    res["fired"] = list(ctx.fired)
    if op.get("want_log"):
        res["log"] = list(ctx.log)
    res["kinds"] = dict(ctx.kind_n)
    if env.USED:
        res["env_used"] = dict(env.USED)
        env.USED.clear()
    if ctx.trace_sql:
        res["sql_trace"] = list(ctx.sql_trace)
    return res


def run_exit_finalizers():
    """What a normal interpreter exit would still do for the library: weakref finalizers."""
    try:
        weakref.finalize._exitfunc()
    except Exception:
        pass


def op_debug_creators(st, op):
    import gc as _gc
    from gffutils import create as gcreate
    out = []
    for o in _gc.get_objects():
        if isinstance(o, gcreate._DBCreator) or isinstance(o, seams.SimConnection):
            refs = [type(r).__name__ + ":" + (str(list(r.keys())[:8]) if isinstance(r, dict) else repr(r)[:120]) for r in _gc.get_referrers(o)]
            out.append((type(o).__name__, getattr(o, "in_transaction", None), refs))
    return {"objs": out}


OPS["debug_creators"] = op_debug_creators
