"""
Seeds, worlds, raw observation, canonical hashing.
"""
import hashlib
import json
import os
import random
import shutil
import sqlite3
from urllib.parse import quote as _urlquote

from . import seams
from .node import Node, NodeDied, HarnessError

MASK = (1 << 64) - 1
SCRATCH = os.environ.get("VERIF_SCRATCH") or ("/dev/shm/gffsim" if os.path.isdir("/dev/shm") else "/var/tmp/gffsim")


def splitmix64(x):
    x = (x + 0x9E3779B97F4A7C15) & MASK
    z = x
    z = ((z ^ (z >> 30)) * 0xBF58476D1CE4E5B9) & MASK
    z = ((z ^ (z >> 27)) * 0x94D049BB133111EB) & MASK
    return z ^ (z >> 31)


def run_seed(verif_seed, check_id, i):
    h = int.from_bytes(hashlib.sha256(check_id.encode()).digest()[:8], "little")
    return splitmix64(splitmix64((verif_seed & MASK) ^ h) + i)


def rng_for(verif_seed, check_id, i):
    return random.Random(run_seed(verif_seed, check_id, i))


from .env import ENV, set_env, decorate  # noqa: E402,F401  (per-run environment knobs, DESIGN 2.6b)


def canon(obj):
    return json.dumps(obj, sort_keys=True, separators=(",", ":"), default=str)


def digest(obj):
    return hashlib.sha256(canon(obj).encode()).hexdigest()[:16]


class World(object):
    """A fresh directory per run: in/ (inputs), tmp/ (shared temp dir), db files at top."""

    _serial = 0

    def __init__(self, tag="w"):
        World._serial += 1
        self.path = os.path.join(SCRATCH, "%d" % os.getpid(), "%s%d" % (tag, World._serial))
        if os.path.exists(self.path):
            shutil.rmtree(self.path)
        os.makedirs(os.path.join(self.path, "in"), exist_ok=True)
        os.makedirs(os.path.join(self.path, "tmp"))
        self.nodes = []
        self.stats = {"nodes": 0, "crashes": 0, "points": 0, "ops": 0, "kinds": {}, "fired": {}}

    def p(self, name):
        d = decorate(name)
        if d != name:
            eu = self.stats.setdefault("env_used", {})
            eu["dbname"] = eu.get("dbname", 0) + 1
        return os.path.join(self.path, d)

    def node(self, **kw):
        n = Node(self.path + "/", len(self.nodes), **kw)
        self.nodes.append(n)
        self.stats["nodes"] += 1
        return n

    def call(self, node, op):
        """call + bookkeeping of points and fired faults"""
        try:
            r = node.call(op)
        except NodeDied as e:
            self.stats["crashes"] += 1
            if e.where:
                k = "crash"
                self.stats["fired"][k] = self.stats["fired"].get(k, 0) + 1
                self.stats["points"] += e.where.get("at", 0)
            raise
        self.stats["ops"] += 1
        self.stats["points"] += r.get("points", 0)
        for k, v in (r.get("kinds") or {}).items():
            self.stats["kinds"][k] = self.stats["kinds"].get(k, 0) + v
        for k, v in (r.get("env_used") or {}).items():
            eu = self.stats.setdefault("env_used", {})
            eu[k] = eu.get(k, 0) + v
        for f in r.get("fired") or []:
            k = f["mode"] + "@" + f["kind"]
            self.stats["fired"][k] = self.stats["fired"].get(k, 0) + 1
        return r

    def tmp_files(self):
        return sorted(os.listdir(self.p("tmp")))

    def close(self):
        for n in self.nodes:
            try:
                n.kill()
            except Exception:
                pass
        shutil.rmtree(self.path, ignore_errors=True)
        try:
            os.rmdir(os.path.dirname(self.path))  # this process's directory, when no other world of it is alive
        except OSError:
            pass

    def __enter__(self):
        return self

    def __exit__(self, *a):
        self.close()
        return False


TABLES = ("features", "relations", "directives", "meta", "autoincrements", "duplicates")


def raw_dump(path, tables=TABLES):
    """Observer: plain read-only sqlite connection, never shared with a node."""
    conn = seams._real_connect("file:%s?mode=ro" % _urlquote(path), uri=True, timeout=0)
    try:
        conn.execute("SELECT name FROM sqlite_master LIMIT 1").fetchall()
    except sqlite3.OperationalError:
        # e.g. a WAL-mode database whose -shm file has to be (re)built: needs a read-write connection
        conn.close()
        conn = seams._real_connect(path, timeout=0)
    try:
        out = {}
        have = set(r[0] for r in conn.execute("SELECT name FROM sqlite_master WHERE type='table'"))
        for t in tables:
            if t not in have:
                out[t] = None
                continue
            if t == "features":
                rows = conn.execute("SELECT rowid, * FROM features ORDER BY rowid").fetchall()
            elif t == "relations":
                rows = sorted(conn.execute("SELECT parent, child, level FROM relations").fetchall(),
                              key=lambda r: tuple(str(x) for x in r))
            elif t == "meta":
                rows = conn.execute("SELECT dialect, version FROM meta ORDER BY rowid").fetchall()
            else:
                rows = conn.execute("SELECT * FROM %s ORDER BY rowid" % t).fetchall()
            out[t] = [list(r) for r in rows]
        return out
    finally:
        conn.close()


def file_format(path):
    """The persistent journal mode recorded in the database header (bytes 18/19: 1 = rollback journal, 2 = WAL)."""
    try:
        b = file_bytes(path)[:20]
    except OSError:
        return None
    return {1: "rollback-journal", 2: "wal"}.get(b[18], "?") if len(b) >= 20 else None


def logical(raw):
    """The part of a raw dump that the properties talk about (DESIGN §6.4): meta rows are
    reduced to the last dialect; sqlite internals excluded."""
    if raw is None:
        return None
    out = dict(raw)
    if raw.get("meta"):
        out["meta"] = raw["meta"][-1][0]
    return out


def file_bytes(path):
    with seams._real_open(path, "rb") as fh:
        return fh.read()


def file_digest(path):
    if not os.path.exists(path):
        return None
    return hashlib.sha256(file_bytes(path)).hexdigest()[:16]
