"""
Batch runner: seeded search over generated cases on all cores, known-finding triage,
minimisation (delta debugging over the recorded case), replay files, evidence.
"""
import copy
import faulthandler
import json
import multiprocessing
import os
import re
import sys
import random
import time
import traceback
from concurrent.futures import ProcessPoolExecutor, as_completed

from . import core
from . import env as envmod

VERIF = os.path.dirname(os.path.dirname(os.path.abspath(__file__)))
# (the two overrides are used by selftest/sensitivity.py only, so that runs against scratch
#  mutants never touch the evidence and replays of the real tree)
REPLAYS = os.environ.get("VERIF_REPLAY_DIR") or os.path.join(VERIF, "replays")
EVIDENCE = os.environ.get("VERIF_EVIDENCE_DIR") or os.path.join(VERIF, "evidence")
KNOWN = os.path.join(VERIF, "known_findings.json")

_HEX = re.compile(r"0x[0-9a-fA-F]+")


def scrub(s, world=None):
    if world:
        s = s.replace(world, "<W>/")
    return _HEX.sub("0x?", s)


class Violation(dict):
    """{'clause': 'C10.content', 'sig': {...}, 'detail': str}"""


def viol(clause, detail, **sig):
    s = {"clause": clause}
    s.update(sig)
    return {"clause": clause, "sig": s, "detail": str(detail)[:1500]}


def sig_key(v):
    return core.canon(v["sig"])


# ----------------------------------------------------------------------------- known findings


def load_known():
    if not os.path.exists(KNOWN):
        return []
    with open(KNOWN) as fh:
        data = json.load(fh)
    return [k for k in data.get("findings", []) if k.get("status", "open") == "open"]


def match_known(known, prop, v):
    for k in known:
        if prop not in (k.get("properties") or [k["property"]]):
            continue
        m = k["match"]
        if all(v["sig"].get(a) == b for a, b in m.items()):
            return k
    return None


# ----------------------------------------------------------------------------- worker side

_CHECK = None


def _load_check(check_id):
    mod = __import__("checks.%s" % check_id.lower(), fromlist=["x"])
    return mod


def _worker_init(check_id):
    global _CHECK
    from . import seams

    seams.install()
    import gffutils

    _CHECK = _load_check(check_id)


def run_one(check, case):
    """Execute one case; returns outcome dict (never raises for violations)."""
    t0 = time.time()
    core.set_env(case.get("env"))
    try:
        out = check.run(case)
    finally:
        core.set_env(None)
    out.setdefault("violations", [])
    if case.get("env"):
        for v in out["violations"]:
            if isinstance(v.get("case"), dict):
                v["case"].setdefault("env", case["env"])
    out.setdefault("stats", {})
    out["wall"] = time.time() - t0
    return out


def make_case(check, check_id, seed, i, tier):
    """Run i of VERIF_SEED=seed: the generated case plus its environment knobs - a pure function of (seed, check, i)."""
    case = check.gen(core.rng_for(seed, check_id, i), tier)
    case["seed"] = seed
    case["run"] = i
    if getattr(check, "ENV_KNOBS", True) and "env" not in case:
        # own PRNG stream: the knobs never perturb what gen() draws
        case["env"] = envmod.knobs(random.Random(core.splitmix64(core.run_seed(seed, check_id, i) ^ 0xE17E17)))
        for k in getattr(check, "ENV_EXCLUDE", ()):
            case["env"].pop(k, None)
    return case


def _chunk(args):
    check_id, seed, tier, idxs, keep_samples = args
    check = _CHECK
    faulthandler.dump_traceback_later(600, exit=True)
    res = {"runs": 0, "hashes": {}, "nontrivial": 0, "viol": [], "fired": {}, "kinds": {}, "probes": {},
           "points": 0, "ops": 0, "nodes": 0, "crashes": 0, "digests": set(), "samples": [], "discarded": 0,
           "errors": [], "schedules": set()}
    for i in idxs:
        try:
            case = make_case(check, check_id, seed, i, tier)
            for k in (case.get("env") or {}):
                res["probes"]["env_knob:" + k] = res["probes"].get("env_knob:" + k, 0) + 1
            out = run_one(check, case)
        except Exception:
            res["errors"].append("run %d: %s" % (i, traceback.format_exc()[-1500:]))
            continue
        res["runs"] += 1
        if out.get("discarded"):
            res["discarded"] += 1
        h = out.get("trace_hash")
        if h is not None:
            nt = bool(out.get("nontrivial"))
            if h not in res["hashes"]:
                res["hashes"][h] = nt
        st = out["stats"]
        for k in ("points", "ops", "nodes", "crashes"):
            res[k] += st.get(k, 0)
        for k, v in (st.get("fired") or {}).items():
            res["fired"][k] = res["fired"].get(k, 0) + v
        for k, v in (st.get("kinds") or {}).items():
            res["kinds"][k] = res["kinds"].get(k, 0) + v
        for k, v in (out.get("probes") or {}).items():
            res["probes"][k] = res["probes"].get(k, 0) + v
        for k, v in (st.get("env_used") or {}).items():
            res["probes"]["env_applied:" + k] = res["probes"].get("env_applied:" + k, 0) + v
        res["digests"].update(out.get("digests") or [])
        res["schedules"].update(out.get("schedules") or [])
        for v in out["violations"]:
            vc = v.pop("case", None) or case
            vc.setdefault("seed", seed)
            vc.setdefault("run", i)
            res["viol"].append({"run": i, "v": v, "case": vc})
        if len(res["samples"]) < keep_samples and out.get("sample") is not None:
            res["samples"].append(out["sample"])
    faulthandler.cancel_dump_traceback_later()
    res["digests"] = list(res["digests"])[:5000]
    res["schedules"] = list(res["schedules"])[:5000]
    return res


# ----------------------------------------------------------------------------- shrinking

SHRINK_KEYS = ("ops", "lines", "faults", "ids", "nodes", "queries", "reads", "feats", "variants", "readers",
               "arrivals", "items", "base", "steps")


def _list_paths(obj, path=()):
    if isinstance(obj, dict):
        for k, v in obj.items():
            if isinstance(v, list) and k in SHRINK_KEYS:
                yield path + (k,)
            for p in _list_paths(v, path + (k,)):
                yield p
    elif isinstance(obj, list):
        for i, v in enumerate(obj):
            for p in _list_paths(v, path + (i,)):
                yield p


def _get(obj, path):
    for k in path:
        obj = obj[k]
    return obj


def shrink(check, case, v0, budget=250, wall=120.0):
    """Greedy delta debugging: delete list elements anywhere in the case while a violation
    with the same signature persists."""
    target = sig_key(v0)
    t_end = time.time() + wall
    tries = [0]

    def still(c):
        tries[0] += 1
        try:
            if hasattr(check, "normalize"):
                c = check.normalize(c)
                if c is None:
                    return None
            out = run_one(check, c)
        except Exception:
            return None
        for v in out["violations"]:
            if sig_key(v) == target:
                c2 = v.get("case") or c
                c2.setdefault("seed", c.get("seed"))
                c2.setdefault("run", c.get("run"))
                return c2
        return None

    best = case
    for k in sorted(case.get("env") or {}):  # simplest first: the default environment
        cand = copy.deepcopy(best)
        cand["env"].pop(k, None)
        r = still(cand)
        if r is not None:
            best = r
            best["env"] = cand["env"]
    progress = True
    while progress and tries[0] < budget and time.time() < t_end:
        progress = False
        for path in sorted(set(_list_paths(best)), key=lambda p: (len(p), str(p))):
            try:
                lst = _get(best, path)
            except (KeyError, IndexError, TypeError):
                continue
            n = len(lst)
            chunk = max(1, n // 2)
            while chunk >= 1 and tries[0] < budget and time.time() < t_end:
                i = 0
                removed = False
                while i < len(_get(best, path)) and tries[0] < budget and time.time() < t_end:
                    cand = copy.deepcopy(best)
                    l2 = _get(cand, path)
                    del l2[i:i + chunk]
                    r = still(cand)
                    if r is not None:
                        best = r
                        progress = True
                        removed = True
                    else:
                        i += chunk
                if chunk == 1:
                    break
                chunk = max(1, chunk // 2)
        if hasattr(check, "simplify"):
            for cand in check.simplify(copy.deepcopy(best)):
                if tries[0] >= budget or time.time() > t_end:
                    break
                r = still(cand)
                if r is not None:
                    best = r
                    progress = True
    return best, tries[0]


# ----------------------------------------------------------------------------- main entry


def write_replay(check_id, case, v, note=""):
    os.makedirs(REPLAYS, exist_ok=True)
    name = "%s-%s-%s-%s.json" % (check_id, case.get("seed"), case.get("run"), core.digest(v["sig"])[:6])
    p = os.path.join(REPLAYS, name)
    with open(p, "w") as fh:
        json.dump({"property": check_id, "violation": v, "case": case, "note": note}, fh, indent=1, sort_keys=True)
    return p


def replay(check_id, path):
    from . import seams

    seams.install()
    check = _load_check(check_id)
    with open(path) as fh:
        rp = json.load(fh)
    out = run_one(check, rp["case"])
    known = load_known()
    want = sig_key(rp["violation"]) if rp.get("violation") else None
    hit = False
    for v in out["violations"]:
        if want is None or sig_key(v) == want:
            hit = True
    for v in out["violations"]:
        print("violation: %s :: %s" % (core.canon(v["sig"]), v["detail"][:600]))
    if hit:
        k = match_known(known, check_id, rp["violation"]) if rp.get("violation") else None
        if k:
            print("KNOWN-FINDING: property=%s %s [%s]" % (check_id, k["what"], k["id"]))
            return 0
        print("VIOLATION property=%s replay=%s" % (check_id, path))
        return 1
    print("replay did not reproduce the recorded violation")
    return 0 if not out["violations"] else 1


def main(check_id, tier, argv=None):
    t0 = time.time()
    seed = int(os.environ.get("VERIF_SEED", "1" if tier == "quick" else "2"))
    from . import seams

    seams.install()
    import gffutils

    if not os.path.realpath(gffutils.__file__).startswith(os.environ.get("VERIF_REPO", "/repo/")):
        print("HARNESS-ERROR: gffutils imported from %s, not /repo" % gffutils.__file__)
        return 2
    check = _load_check(check_id)
    budget = check.budget(tier)
    if os.environ.get("VERIF_RUNS"):
        budget["runs"] = int(os.environ["VERIF_RUNS"])
    n_runs = budget["runs"]
    wall_cap = float(os.environ.get("VERIF_WALL", budget.get("wall", 60)))
    workers = int(os.environ.get("VERIF_WORKERS", os.cpu_count() or 4))
    chunk = budget.get("chunk", 8)
    idx_chunks = [list(range(a, min(a + chunk, n_runs))) for a in range(0, n_runs, chunk)]
    os.makedirs(core.SCRATCH, exist_ok=True)
    # worlds of earlier runs whose process is gone (e.g. killed by a timeout) are removed
    for d in os.listdir(core.SCRATCH):
        if d.isdigit() and not os.path.exists("/proc/%s" % d):
            import shutil

            shutil.rmtree(os.path.join(core.SCRATCH, d), ignore_errors=True)

    agg = {"runs": 0, "hashes": {}, "viol": [], "fired": {}, "kinds": {}, "probes": {}, "points": 0, "ops": 0,
           "nodes": 0, "crashes": 0, "digests": set(), "samples": [], "discarded": 0, "errors": [],
           "schedules": set()}
    truncated = False
    ctx = multiprocessing.get_context("fork")
    with ProcessPoolExecutor(max_workers=workers, mp_context=ctx, initializer=_worker_init,
                             initargs=(check_id,)) as ex:
        pending = []
        it = iter(idx_chunks)
        # keep the queue shallow so that the wall cap can stop the batch
        def submit_more():
            while len(pending) < workers * 2:
                try:
                    c = next(it)
                except StopIteration:
                    return False
                pending.append(ex.submit(_chunk, (check_id, seed, tier, c, 1)))
            return True

        more = submit_more()
        while pending:
            done = None
            for f in as_completed(pending):
                done = f
                break
            pending.remove(done)
            r = done.result()
            agg["runs"] += r["runs"]
            for h, nt in r["hashes"].items():
                agg["hashes"][h] = agg["hashes"].get(h, False) or nt
            for k in ("fired", "kinds", "probes"):
                for a, b in r[k].items():
                    agg[k][a] = agg[k].get(a, 0) + b
            for k in ("points", "ops", "nodes", "crashes", "discarded"):
                agg[k] += r[k]
            agg["digests"].update(r["digests"])
            agg["schedules"].update(r["schedules"])
            agg["viol"].extend(r["viol"])
            agg["errors"].extend(r["errors"])
            if len(agg["samples"]) < 3:
                agg["samples"].extend(r["samples"][: 3 - len(agg["samples"])])
            if time.time() - t0 > wall_cap:
                truncated = True
                more = False
                for p in pending:
                    p.cancel()
                pending = [p for p in pending if not p.cancelled()]
            elif more:
                more = submit_more()

    known = load_known()
    known_hit = {}
    unknown = {}
    for item in agg["viol"]:
        k = match_known(known, check_id, item["v"])
        if k:
            known_hit.setdefault(k["id"], [k, 0])[1] += 1
        else:
            unknown.setdefault(sig_key(item["v"]), []).append(item)

    rc = 0
    for kid, (k, n) in sorted(known_hit.items()):
        print("KNOWN-FINDING: property=%s %s [%s; seen in %d run(s)]" % (check_id, k["what"], kid, n))
    reported = []
    if unknown:
        rc = 1
        for sk, items in sorted(unknown.items())[:4]:
            items.sort(key=lambda it: len(core.canon(it["case"])))
            item = items[0]
            small, tries = shrink(check, item["case"], item["v"],
                                  budget=int(os.environ.get("VERIF_SHRINK", "250")))
            # confirm (and refresh the detail) on the minimised case
            out = run_one(check, small)
            vv = [v for v in out["violations"] if sig_key(v) == sk]
            v = vv[0] if vv else item["v"]
            p = write_replay(check_id, small if vv else item["case"], v,
                             note="minimised with %d re-executions from run %d" % (tries, item["run"]))
            print("violation: %s :: %s" % (sk, v["detail"][:700]))
            print("VIOLATION property=%s replay=%s" % (check_id, p))
            reported.append({"sig": v["sig"], "replay": p, "runs": len(items)})
    if agg["errors"]:
        for e in agg["errors"][:3]:
            print("HARNESS-ERROR: %s" % e)
        if rc == 0:
            rc = 2

    wall = time.time() - t0
    distinct_nt = sum(1 for v in agg["hashes"].values() if v)
    ev = {
        "property_id": check_id,
        "tier": tier,
        "seed": seed,
        "level": check.LEVEL,
        "coverage": {
            "evaluations": agg["runs"],
            "distinct_nontrivial": distinct_nt,
            "rule": check.RULE,
            "samples": agg["samples"][:3] or ["(no sample recorded)"],
            "distinct_traces": len(agg["hashes"]),
            "runs_discarded_as_undefined_by_statement": agg["discarded"],
            "runs_per_hour": int(agg["runs"] / max(wall, 1e-6) * 3600),
            "seeds_per_hour": int(agg["runs"] / max(wall, 1e-6) * 3600),
            "simulated_steps": {"seam_points": agg["points"], "operations": agg["ops"],
                                "note": "gffutils has no clock or timer in any decision; simulated time does not exist, steps are seam points"},
            "node_processes": agg["nodes"],
            "node_crashes": agg["crashes"],
            "faults_fired": agg["fired"],
            "seam_points_by_kind": agg["kinds"],
            "reach_probes": agg["probes"],
            "distinct_store_digests": len(agg["digests"]),
            "distinct_schedules": len(agg["schedules"]),
            "truncated_by_wall_cap": truncated,
            "planned_runs": n_runs,
            "workers": workers,
            "real_vs_stub": check.REAL_VS_STUB if hasattr(check, "REAL_VS_STUB") else REAL_VS_STUB,
            "known_findings_hit": dict((k, n) for k, (_, n) in known_hit.items()),
            "violations_reported": reported,
        },
        "assumptions": ASSUMPTIONS + list(getattr(check, "ASSUMPTIONS", [])),
        "wall_s": round(wall, 2),
        "violations": len(unknown),
    }
    os.makedirs(EVIDENCE, exist_ok=True)
    with open(os.path.join(EVIDENCE, "%s.json" % check_id), "w") as fh:
        json.dump(ev, fh, indent=1, sort_keys=True, default=str)
    print("%s %s: runs=%d distinct_nontrivial=%d points=%d fired=%s known=%s violations=%d wall=%.1fs%s" % (
        check_id, tier, agg["runs"], distinct_nt, agg["points"], sum(agg["fired"].values()),
        sorted(known_hit), len(unknown), wall, " (truncated)" if truncated else ""))
    return rc


REAL_VS_STUB = {
    "real": ["gffutils (all of /repo/gffutils, imported from the working tree)", "sqlite3 engine and database files",
             "file system (tmpfs world directory)", "tempfile O_EXCL creation loop", "OS processes (fork/_exit)",
             "Python cycle collector (scheduled)"],
    "stub_or_controlled": ["tempfile candidate-name generator (deterministic, collision-forcing)",
                           "sqlite busy timeout (0 instead of 5 s)", "feature sources (instrumented iterators)",
                           "injected errors (OperationalError / OSError / KeyboardInterrupt / _exit at seam points)"],
}

ASSUMPTIONS = [
    "sqlite's commit is atomic: crashes are placed at Python-visible seam points only (before a statement, "
    "before/after a commit, at file-system calls); torn pages inside a commit under journal_mode=MEMORY are not simulated",
    "the input space is sampled by a seeded generator over small alphabets, not enumerated",
    "no clock, network or thread exists in gffutils' decisions, so none is simulated",
]
