"""
Lock-step scheduling of real node processes (DESIGN §2.5).

Every participating node runs ONE operation; it parks at each seam point of the kinds it
was created with, and this scheduler releases exactly one eligible node at a time, chosen
by the caller's PRNG under a policy.  One PRNG state = one exactly repeatable interleaving;
the schedule is the returned list of node indices.
"""
from . import core
from .node import NodeDied, HarnessError


def pick(rng, policy, eligible, last):
    if policy == "rr":
        later = [x for x in eligible if x > last]
        return later[0] if later else eligible[0]
    if policy == "bursty" and last in eligible and rng.random() < 0.8:
        return last
    return rng.choice(eligible)


def lockstep(w, ns, make_req, rng, policy="uniform", delays=None, journal=None, planned_crash=()):
    """Returns dict(state, result, created, pending, overlap, sched, unexpected_deaths).

    created[i]  temp candidate names node i actually obtained (a name is 'obtained' when the
                next point of that node is not another name draw)
    overlap     True when two nodes held a live temp file at the same time in this schedule
    """
    n = len(ns)
    journal = journal if journal is not None else []
    reqs = [make_req(i) for i in range(n)]
    state = ["unstarted" if reqs[i] is not None else "idle" for i in range(n)]
    delay = list(delays or [0] * n)
    result = [None] * n
    created = [set() for _ in range(n)]
    pending = [None] * n
    open_tmp = [0] * n
    overlap = False
    sched = []
    deaths = []
    last = -1
    step = 0
    pile = policy == "pileup"
    while True:
        eligible = [i for i, s in enumerate(state) if s == "parked" or (s == "unstarted" and delay[i] <= step)]
        if not eligible:
            waiting = [i for i, s in enumerate(state) if s == "unstarted"]
            if not waiting:
                break
            step = min(delay[i] for i in waiting)
            continue
        if pile:
            not_at = [i for i in eligible if not (state[i] == "parked" and pending[i] is not None)]
            cand = not_at if not_at else eligible
        else:
            cand = eligible
        i = pick(rng, policy, cand, last)
        last = i
        sched.append(i)
        step += 1
        node = ns[i]
        try:
            if state[i] == "unstarted":
                node.send(reqs[i])
            else:
                node.send(("go",))
            while True:
                m = node.recv()
                if m[0] == "crashing":
                    node.crash_note = m[1]
                    continue
                break
        except NodeDied as e:
            state[i] = "dead"
            w.stats["crashes"] += 1
            w.stats["fired"]["crash"] = w.stats["fired"].get("crash", 0) + 1
            journal.append((i, "died", e.status))
            if i not in planned_crash:
                deaths.append((i, e.status))
            continue
        if m[0] == "park":
            state[i] = "parked"
            kind, detail = m[1], m[2]
            journal.append((i, kind, detail))
            if kind == "fs.tmpname":
                pending[i] = detail
            else:
                if pending[i] is not None:
                    created[i].add(pending[i])
                    pending[i] = None
                    open_tmp[i] += 1
                    if sum(1 for x in open_tmp if x > 0) >= 2:
                        overlap = True
                if kind == "fs.unlink":
                    open_tmp[i] = max(0, open_tmp[i] - 1)
        elif m[0] == "done":
            state[i] = "done"
            r = m[1]
            result[i] = r
            if pending[i] is not None:
                created[i].add(pending[i])
                pending[i] = None
            open_tmp[i] = 0
            w.stats["ops"] += 1
            w.stats["points"] += r.get("points", 0)
            for k, v in (r.get("kinds") or {}).items():
                w.stats["kinds"][k] = w.stats["kinds"].get(k, 0) + v
            for f in r.get("fired") or []:
                kk = f["mode"] + "@" + f["kind"]
                w.stats["fired"][kk] = w.stats["fired"].get(kk, 0) + 1
            journal.append((i, "done", r["ok"], r.get("exc"), core.digest(r.get("log"))))
        else:
            raise HarnessError("unexpected frame %r" % (m[0],))
    return {"state": state, "result": result, "created": created, "pending": pending, "overlap": overlap,
            "sched": sched, "unexpected_deaths": deaths}


def sched_str(sched):
    return "".join(str(x) if x < 10 else "(%d)" % x for x in sched)
