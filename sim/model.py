"""
Reference model: a small in-memory annotation store that implements the *property
statements* (properties.jsonl), not the code.  Each clause cites the property it
comes from.

Model feature (MF): dict
    id     : key in the store
    cols   : [seqid, source, featuretype, start, end, score, strand, frame]  (start/end int|None)
    attrs  : [[key, [values...]], ...]   ordered
    extra  : [str...]
    merged : True when produced by the 'merge' strategy (value order left open, DESIGN §6.1)
    derived: True for GTF-inferred gene/transcript features
"""
import copy
import re

COLS = ["seqid", "source", "featuretype", "start", "end", "score", "strand", "frame"]
CI = dict((c, i) for i, c in enumerate(COLS))


class ModelError(Exception):
    """The statement says the operation must fail (e.g. strategy 'error')."""


class Undefined(Exception):
    """The statements do not define the outcome (run is discarded, never a violation)."""


def mf(cols, attrs, extra=None, id=None):
    return {"id": id, "cols": list(cols), "attrs": [[k, list(v)] for k, v in attrs],
            "extra": list(extra or []), "merged": False, "derived": False}


def aget(f, key):
    for k, v in f["attrs"]:
        if k == key:
            return v
    return None


def aset(f, key, vals):
    for kv in f["attrs"]:
        if kv[0] == key:
            kv[1] = list(vals)
            return
    f["attrs"].append([key, list(vals)])


def adict(f):
    return dict((k, list(v)) for k, v in f["attrs"])


# --------------------------------------------------------------------------- C12-free bins
# independent arithmetic for the UCSC scheme (128kb finest .. 512Mb), used by C06's
# index invariant: each stored row's bin must equal the scheme's smallest containing bin.
_OFFS = [4681, 585, 73, 9, 1]


def ucsc_bin(start, end):
    if start is None or end is None:
        return None
    if start >= 2 ** 29 or end >= 2 ** 29 or start < 0 or end < 0:
        return 1
    s = (start - 1) >> 17
    e = end >> 17
    for off in _OFFS:
        if s == e:
            return off + s
        s >>= 3
        e >>= 3
    return 1


# --------------------------------------------------------------------------- id_spec (C04)


def derive_id(model, f, id_spec):
    """C04: key fixed by id_spec.  Returns (key, auto_base|None)."""
    ft = f["cols"][2]
    if id_spec is None or isinstance(id_spec, str):
        keys = [id_spec]
    elif isinstance(id_spec, dict) and "callable" in id_spec:
        keys = [id_spec]
    elif isinstance(id_spec, dict):
        if ft not in id_spec:
            return model.auto(ft)
        keys = id_spec[ft]
        if isinstance(keys, str):
            keys = [keys]
    else:
        keys = list(id_spec)
    for k in keys:
        if isinstance(k, dict):  # callable
            r = _call_idspec(k, f)
            if r:
                if r.startswith("autoincrement:"):
                    return model.auto(r[14:])
                return r, None
            continue
        if len(k) > 3 and k[0] == ":" and k[-1] == ":":
            return str(f["cols"][CI[k[1:-1]]]) if k[1:-1] in CI else None, None
        v = aget(f, k)
        if v is not None:
            if len(v) > 1:
                raise ModelError("multi-valued id attribute %s" % k)  # C04: rejected
            if len(v) == 1:
                return v[0], None
    return model.auto(ft)


def _call_idspec(spec, f):
    name = spec["callable"]
    if name == "none":
        return None
    if name == "auto_seqid":
        return "autoincrement:" + f["cols"][0]
    if name == "auto_const":
        return "autoincrement:" + spec.get("base", "k")
    if name == "auto_colon":
        return "autoincrement:" + f["cols"][0] + ":" + f["cols"][2]
    if name == "name_or_none":
        v = aget(f, spec.get("key", "Name"))
        return v[0] if v else None
    if name == "name_or_auto":
        v = aget(f, spec.get("key", "Name"))
        return v[0] if v else "autoincrement:" + spec.get("base", "z")
    if name == "empty":
        return ""
    raise ValueError(name)


# --------------------------------------------------------------------------- transforms


def apply_transform(spec, feats):
    """C13: transform applied once to each feature; falsy result -> skipped."""
    if spec is None:
        return [copy.deepcopy(f) for f in feats]
    out = []
    kind = spec["kind"]
    for n, f in enumerate(feats):
        f = copy.deepcopy(f)
        if kind == "identity":
            out.append(f)
        elif kind == "drop_type":
            if f["cols"][2] != spec["type"]:
                out.append(f)
        elif kind == "drop_every":
            if n % spec["n"] != spec.get("r", 0):
                out.append(f)
        elif kind == "shift":
            if f["cols"][3] is not None:
                f["cols"][3] += spec["by"]
                f["cols"][4] += spec["by"]
            out.append(f)
        elif kind == "tag":
            aset(f, spec.get("key", "tag"), [spec.get("val", "x")])
            out.append(f)
        elif kind == "retype":
            if f["cols"][2] == spec["from"]:
                f["cols"][2] = spec["to"]
            out.append(f)
        elif kind == "append_inplace":
            v = aget(f, spec["key"])
            if v is not None:
                v.append(spec["val"])
            out.append(f)
        else:
            raise ValueError(kind)
    return out


# --------------------------------------------------------------------------- the store


class Model(object):
    def __init__(self, fmt="gff3"):
        self.fmt = fmt
        self.feats = {}  # id -> MF
        self.order = []  # ids in rowid order
        self.rel = set()  # (parent, child, level)
        self.counters = {}
        self.dups = {}  # idspecid -> [newid, ...]
        self.directives = []
        self.auto_issued = []  # [(key, base, n)] issued by the op in progress
        self.ledger_max = {}  # base -> highest n ever handed out (C10 clause 3)
        self.gtf = {"transcript_key": "transcript_id", "gene_key": "gene_id", "subfeature": "exon",
                    "dig": False, "dit": False}
        self.stale_links = set()  # level-1 links of replaced features (known finding KF-C05-2 keeps them)
        self.l2_open = False  # after a replace that changed links, level-2 rows are not compared
        self.manual1 = set()  # level-1 links added by add_relation (not by a Parent attribute)
        self.opt2 = set()  # level-2 rows derivable only through manual links: allowed, not required

    def clone(self):
        return copy.deepcopy(self)

    # ---- keys
    def auto(self, base):
        n = self.counters.get(base, 0) + 1
        self.counters[base] = n
        key = "%s_%d" % (base, n)
        self.auto_issued.append((key, base, n))
        return key, base

    # ---- primitive store operations
    def insert(self, key, f):
        f = copy.deepcopy(f)
        f["id"] = key
        self.feats[key] = f
        self.order.append(key)

    def remove(self, key):
        if key in self.feats:
            del self.feats[key]
            self.order.remove(key)
        self.rel = set(r for r in self.rel if r[0] != key and r[1] != key)  # C10: every relation mentioning it
        self.opt2 = set(r for r in self.opt2 if r[0] != key and r[1] != key)
        self.manual1 = set(r for r in self.manual1 if r[0] != key and r[1] != key)
        self.stale_links = set(r for r in self.stale_links if r[0] != key and r[1] != key)

    # ---- C05: one arrival under a strategy
    def arrive(self, f, key, strategy, fmf=()):
        """Returns the id under which the arrival's content now lives (None if ignored)."""
        if key not in self.feats:
            self.insert(key, f)
            return key
        if strategy == "error":
            raise ModelError("duplicate key %s" % key)
        if strategy == "warning":
            return None  # C05: keeps the first and ignores later ones
        if strategy == "replace":
            g = copy.deepcopy(f)
            g["id"] = key
            old = self.feats[key]
            self.feats[key] = g  # C05: keeps the last (C11: in the first one's position)
            # C05: no Parent link is lost or invented -> the replaced feature's own links go
            newp = set(aget(g, "Parent") or [])
            for p in aget(old, "Parent") or []:
                if p not in newp and (p, key, 1) in self.rel:
                    self.rel.discard((p, key, 1))
                    self.stale_links.add((p, key, 1))
                    self.l2_open = True
            return key
        if strategy == "create_unique":
            nk = self._uniq(key)
            self.insert(nk, f)
            return nk
        if strategy == "merge":
            cands = [key] + [d for d in self.dups.get(key, []) if d in self.feats]
            matches = [c for c in cands if self._same_cols(self.feats[c], f, fmf)]
            if not matches:
                nk = self._uniq(key)
                self.dups.setdefault(key, []).append(nk)
                self.insert(nk, f)
                return nk
            if len(matches) > 1:
                raise Undefined("several stored candidates match one newcomer")
            t = self.feats[matches[0]]
            self._merge_into(t, f, fmf)
            return matches[0]
        raise ValueError(strategy)

    def _uniq(self, key):
        n = self.counters.get(key, 0) + 1
        self.counters[key] = n
        nk = "%s_%d" % (key, n)
        if nk in self.feats:
            raise Undefined("uniquified key collides with an explicit id")
        self.auto_issued.append((nk, key, n))
        return nk

    @staticmethod
    def _same_cols(a, b, fmf):
        for i, c in enumerate(COLS):
            if c in fmf:
                continue
            if a["cols"][i] != b["cols"][i]:
                return False
        return True

    @staticmethod
    def _merge_into(t, f, fmf):
        # C05: unions the attribute values (without repeats)
        td = adict(t)
        new = []
        for k, v in f["attrs"]:
            vals = list(v) + [x for x in td.get(k, [])]
            new.append([k, sorted(set(vals))])
        have = set(k for k, _ in new)
        for k, v in t["attrs"]:
            if k not in have:
                new.append([k, sorted(set(v))])
        t["attrs"] = new
        t["merged"] = True
        # C05: exempt columns become the comma-joined set of values seen
        seen = t.setdefault("seen", {})
        for c in fmf:
            s = seen.get(c)
            if s is None:
                s = seen[c] = set([str(t["cols"][CI[c]])])
            s.add(str(f["cols"][CI[c]]))
            t["cols"][CI[c]] = ",".join(sorted(s))

    # ---- GFF3 import / update (C01, C02, C04, C05, C10)
    def import_gff3(self, feats, strategy="error", id_spec="ID", fmf=(), upto=None, closure=True):
        """Apply arrivals in order.  upto=k applies only the first k (prefix effects of a
        failed multi-commit update).  Returns list of stored ids per arrival."""
        self.auto_issued = []
        placed = []
        for n, f in enumerate(feats):
            if upto is not None and n >= upto:
                break
            key, base = derive_id(self, f, id_spec or "ID")
            sid = self.arrive(f, key, strategy, fmf)
            placed.append(sid)
            if sid is not None:
                # C02/C05: one level-1 link per Parent value of the arrival
                for p in aget(f, "Parent") or []:
                    self.rel.add((p, sid, 1))
                    self.manual1.discard((p, sid, 1))
            if strategy == "replace" and sid == key:
                pass
        if closure and (upto is None) and len(feats) > 0:  # C10: update with no features changes nothing
            self.close_level2()
        return placed

    def close_level2(self):
        # C02: children(x, level=2) exactly the level-1 children of x's level-1 children.
        # Rows that exist only because of a manually added level-1 relation are allowed but not
        # required (C10 says update adds the features' "first- and second-level relations"; whether
        # later updates also compose manual links is not stated).
        by_parent = {}
        for p, c, l in self.rel:
            if l == 1:
                by_parent.setdefault(p, set()).add(c)
        for x in list(self.feats):
            for c in by_parent.get(x, ()):
                for g in by_parent.get(c, ()):
                    t = (x, g, 2)
                    if t in self.rel:
                        continue
                    if (x, c, 1) in self.manual1 or (c, g, 1) in self.manual1:
                        self.opt2.add(t)
                    else:
                        self.rel.add(t)
                        self.opt2.discard(t)

    # ---- GTF import (C03)
    def import_gtf(self, feats, strategy="error", id_spec=None, fmf=(), upto=None, infer=True):
        tk, gk, sub = self.gtf["transcript_key"], self.gtf["gene_key"], self.gtf["subfeature"]
        if id_spec is None:
            id_spec = {"gene": "gene_id", "transcript": "transcript_id"}
        self.auto_issued = []
        placed = []
        for n, f in enumerate(feats):
            if upto is not None and n >= upto:
                break
            key, base = derive_id(self, f, id_spec)
            sid = self.arrive(f, key, strategy, fmf)
            placed.append(sid)
            if sid is None:
                continue
            t = aget(f, tk)
            g = aget(f, gk)
            t = t[0] if t else None
            g = g[0] if g else None
            # C03: every other line carrying these ids is a level-1 child of its transcript and a
            # level-2 child of its gene; each transcript a level-1 child of its gene; explicit
            # gene/transcript lines are never their own parent or child
            if t is not None and t != sid:
                self.rel.add((t, sid, 1))
            if g is not None and g != sid and not (t is not None and t == sid):
                self.rel.add((g, sid, 2))
            if g is not None and t is not None and g != t:
                self.rel.add((g, t, 1))
        if infer and upto is None:
            self.infer_gtf()
        return placed

    def infer_gtf(self):
        tk, gk, sub = self.gtf["transcript_key"], self.gtf["gene_key"], self.gtf["subfeature"]
        if self.gtf["dig"] and self.gtf["dit"]:
            return
        tx = {}
        gn = {}
        for i in self.order:
            f = self.feats[i]
            if f["cols"][2] != sub or f["derived"]:
                continue
            t = aget(f, tk)
            g = aget(f, gk)
            if not t or not g:
                continue
            g = g[0]
            for t1 in (t if f.get("merged") else t[:1]):  # an exon merged from several lines belongs to each of their transcripts
                tx.setdefault(t1, {"g": g, "ex": []})["ex"].append(f)
            gn.setdefault(g, []).append(f)
        new = []
        if not self.gtf["dit"]:
            for t, d in tx.items():
                new.append(("transcript", t, d["ex"], [[tk, [t]], [gk, [d["g"]]]]))
        if not self.gtf["dig"]:
            for g, ex in gn.items():
                new.append(("gene", g, ex, [[gk, [g]]]))
        for ftype, key, ex, attrs in new:
            s = min(e["cols"][3] for e in ex)
            e_ = max(e["cols"][4] for e in ex)
            f = mf([ex[0]["cols"][0], "gffutils_derived", ftype, s, e_, ".", ex[0]["cols"][6], "."], attrs)
            f["derived"] = True
            f["seqids"] = sorted(set(e["cols"][0] for e in ex))
            f["strands"] = sorted(set(e["cols"][6] for e in ex))
            if key in self.feats:
                # C03: explicit lines stay the single feature under their id
                self.feats[key]["explicit_for_derived"] = f
                continue
            self.insert(key, f)

    # ---- C10 operations
    def delete(self, ids):
        for i in ids:
            self.remove(i)

    def add_relation(self, parent, child, level, child_func=None, parent_func=None, by=0):
        if parent not in self.feats or child not in self.feats:
            raise ModelError("FeatureNotFound")
        if (parent, child, level) in self.rel:
            raise ModelError("duplicate relation")
        self.rel.add((parent, child, level))
        self.opt2.discard((parent, child, level))
        if level == 1:
            self.manual1.add((parent, child, 1))
        c = self.feats[child]
        p = self.feats[parent]
        if parent_func == "tag":
            aset(p, "child", [child])
        if child_func == "assign_child":
            pid = aget(p, "ID")
            if pid is None:
                raise Undefined("assign_child with a parent lacking ID")
            aset(c, "Parent", pid)
        elif child_func == "set_parent":
            aset(c, "Parent", [parent])
        elif child_func == "move":
            c["cols"][3] += by
            c["cols"][4] += by

    # ---- relations as the API shows them
    def children(self, x, level=None, rel=None):
        rel = self.rel if rel is None else rel
        return sorted(set(c for (p, c, l) in rel if p == x and c in self.feats and (level is None or l == level)))

    def parents(self, x, level=None, rel=None):
        rel = self.rel if rel is None else rel
        return sorted(set(p for (p, c, l) in rel if c == x and p in self.feats and (level is None or l == level)))

    def rel_view(self, alt=False):
        rel = (self.rel | self.stale_links) if alt else self.rel
        out = {}
        for i in self.order:
            out[i] = {"c1": set(), "c2": set(), "p1": set(), "p2": set()}
        for p, c, l in rel:
            if l in (1, 2):
                if p in out and c in self.feats:
                    out[p]["c%d" % l].add(c)
                if c in out and p in self.feats:
                    out[c]["p%d" % l].add(p)
        if self.opt2:
            for i in self.order:
                out[i]["c2opt"] = set()
                out[i]["p2opt"] = set()
            for p, c, l in self.opt2:
                if p in out and c in self.feats:
                    out[p]["c2opt"].add(c)
                if c in out and p in self.feats:
                    out[c]["p2opt"].add(p)
        for i in out:
            for k in out[i]:
                out[i][k] = sorted(out[i][k])
        return out


# --------------------------------------------------------------------------- comparison


def _norm_attrs(attrs, as_sets):
    if as_sets:
        # merged features: order of values (and keys) left open, but "without repeats" is not: compare as multisets
        return sorted((k, sorted(v)) for k, v in attrs)
    return [(k, list(v)) for k, v in attrs]


def diff_feature(m, d, check_extra=True):
    """Compare model feature m with dumped feature d (ops.fdict). Returns list of strings."""
    out = []
    if m["id"] != d["id"]:
        out.append("id %r != %r" % (d["id"], m["id"]))
    mc_, dc = m["cols"], d["cols"]
    if m.get("derived"):
        for i in (2, 3, 4):
            if mc_[i] != dc[i]:
                out.append("%s %r != %r" % (COLS[i], dc[i], mc_[i]))
        if dc[0] not in m.get("seqids", [mc_[0]]):
            out.append("seqid %r not among the exons' %r" % (dc[0], m.get("seqids")))
        if dc[6] not in m.get("strands", [mc_[6]]):
            out.append("strand %r not among the exons' %r" % (dc[6], m.get("strands")))
        return out
    for i in range(8):
        if mc_[i] != dc[i]:
            out.append("%s %r != %r" % (COLS[i], dc[i], mc_[i]))
    a = _norm_attrs(m["attrs"], m.get("merged"))
    b = _norm_attrs(d["attrs"], m.get("merged"))
    if a != b:
        out.append("attributes %r != %r" % (b, a))
    if check_extra and not m.get("merged") and list(m["extra"]) != list(d["extra"]):
        out.append("extra %r != %r" % (d["extra"], m["extra"]))
    return out


def diff_store(model, dump, check_rel=True, ordered=True, max_items=6):
    """Compare model with ops.api_dump result.  Returns list of (kind, text)."""
    out = []
    ids_d = [f["id"] for f in dump["features"]]
    ids_m = list(model.order)
    if ordered:
        if ids_d != ids_m:
            missing = [i for i in ids_m if i not in ids_d]
            extra = [i for i in ids_d if i not in ids_m]
            if missing:
                out.append(("missing_feature", "not stored: %r" % missing[:max_items]))
            if extra:
                out.append(("extra_feature", "unexpected: %r" % extra[:max_items]))
            if not missing and not extra:
                out.append(("order", "iteration order %r != %r" % (ids_d[:12], ids_m[:12])))
    else:
        missing = sorted(set(ids_m) - set(ids_d))
        extra = sorted(set(ids_d) - set(ids_m))
        if missing:
            out.append(("missing_feature", "not stored: %r" % missing[:max_items]))
        if extra:
            out.append(("extra_feature", "unexpected: %r" % extra[:max_items]))
    for d in dump["features"]:
        m = model.feats.get(d["id"])
        if m is None:
            continue
        df = diff_feature(m, d)
        if df:
            out.append(("feature_content", "%s: %s" % (d["id"], "; ".join(df[:3]))))
    if check_rel and "rel" in dump:
        keys = ("c1", "p1") if model.l2_open else ("c1", "c2", "p1", "p2")
        rv = model.rel_view()
        rel_out = []
        for i, r in dump["rel"].items():
            if i not in rv:
                continue
            for k in keys:
                if r[k] != rv[i][k]:
                    lost = sorted(set(rv[i][k]) - set(r[k]))
                    inv = sorted(set(r[k]) - set(rv[i][k]) - set(rv[i].get(k + "opt", ())))
                    if not lost and not inv:
                        continue
                    kind = "rel_lost" if lost and not inv else ("rel_invented" if inv and not lost else "rel_diff")
                    rel_out.append((kind, "%s.%s: got %r expected %r" % (i, k, r[k], rv[i][k])))
        if rel_out and model.stale_links:
            av = model.rel_view(alt=True)
            if all(dump["rel"][i][k] == av[i][k] for i in dump["rel"] if i in av for k in ("c1", "p1")):
                rel_out = [("replace_stale_parent_link", "the replaced feature's former Parent links are still stored: "
                            + "; ".join(t for _, t in rel_out[:3]))]
        out.extend(rel_out)
    return out[:40]


AUTO_RE = re.compile(r"^(.*)_(\d+)$")
