"""
Per-run environment knobs (swarm style, DESIGN 2.6b).

Every knob is a setting or an environment under which the unchanged library behaves
exactly as with the defaults (the properties quantify over "all arguments", and what a
deployment varies is precisely this: file names, verbosity, line endings, documented no-op
flags, equivalent text factories).  The runner draws a knob set per run from the run's own
PRNG stream, stores it in the case (`case["env"]`, so replay and shrinking see it) and
sets it here before the case runs; node processes inherit it at fork time.  Knobs are
applied at the choke points of the op executor (`ops._path`, `ops._create_kwargs`,
`ops.make_source`, `ops.op_open`) and of the observer (`World.p`), never in a check.
"""
import os

ENV = {}
USED = {}

_SIDE = (".bak", "-wal", "-shm", "-journal")
_DECOR = {1: "%s x.db", 2: "%s#1.db", 3: "%s?q=1.db", 4: "%s%%41.db", 5: "%sé中.db", 6: "%s.gffdb", 7: "%s.v1.2"}


def set_env(env):
    ENV.clear()
    ENV.update(env or {})
    USED.clear()


def _used(k):
    USED[k] = USED.get(k, 0) + 1


def knobs(rng):
    """Swarm: each knob is on in a minority of the runs, most runs carry 0-2 knobs."""
    e = {}
    if rng.random() < 0.30:
        e["dbname"] = rng.randint(1, 7)
    if rng.random() < 0.25:
        e["verbose"] = rng.choice([True, "debug"])
    if rng.random() < 0.20:
        e["noop_flags"] = rng.choice(["disable", "legacy"])
    if rng.random() < 0.20:
        e["crlf"] = True
    if rng.random() < 0.15:
        e["text_factory"] = "utf8fn"
    if rng.random() < 0.15:
        e["default_encoding"] = rng.choice(["latin-1", "ascii", "UTF8"])
    if rng.random() < 0.25:
        e["prelude"] = True  # process reuse: see ops.run_prelude
    return e


def decorate(name):
    """Database file names as users have them: spaces, '#', '?', '%XX', non-ASCII, no '.db'."""
    style = ENV.get("dbname", 0)
    if not style or name == ":memory:":
        return name
    d, base = os.path.split(name)
    for suf in _SIDE:
        if base.endswith(suf):
            return decorate(name[:-len(suf)]) + suf
    if not base.endswith(".db"):
        return name
    return os.path.join(d, _DECOR[style] % base[:-3])


def _utf8fn(b):
    return b.decode("utf-8")


def _clearly_gff3(spec):
    """True when no line of the source could make the importer take the GTF path."""
    if "text" in spec:
        lines = spec["text"].split("\n")
    elif "lines" in spec:
        lines = list(spec["lines"])
    else:
        return False
    seen = False
    for ln in lines:
        if not ln.strip() or ln.startswith("#"):
            continue
        if ln.startswith(">"):
            break
        cols = ln.rstrip("\r\n").split("\t")
        if len(cols) < 9:
            return False
        a = cols[8].strip()
        if a in ("", "."):
            continue
        if "gene_id" in a or "transcript_id" in a or '"' in a or "=" not in a:
            return False
        seen = True
    return seen


def create_kw(kw, spec, is_update=False):
    """create_db / update keyword arguments under the run's knobs (explicit ones win)."""
    v = ENV.get("verbose")
    if v and "verbose" not in kw:
        kw["verbose"] = v
        _used("verbose")
    nf = ENV.get("noop_flags")
    if nf:
        both = kw.get("disable_infer_genes") is True and kw.get("disable_infer_transcripts") is True
        none = "disable_infer_genes" not in kw and "disable_infer_transcripts" not in kw and "infer_gene_extent" not in kw
        if nf == "legacy" and both:
            # the deprecated spelling of the same request
            del kw["disable_infer_genes"], kw["disable_infer_transcripts"]
            kw["infer_gene_extent"] = False
            _used("legacy_infer_gene_extent")
        elif none and spec is not None and _clearly_gff3(spec):
            # documented as GTF-only: no effect on a GFF3 import
            if nf == "legacy":
                kw["infer_gene_extent"] = False
            else:
                kw["disable_infer_genes"] = True
                kw["disable_infer_transcripts"] = True
            _used("gtf_only_flags_on_gff3")
    if ENV.get("text_factory") == "utf8fn" and "text_factory" not in kw and not is_update:
        kw["text_factory"] = _utf8fn
        _used("text_factory")
    return kw


def open_kw(kw):
    if ENV.get("text_factory") == "utf8fn" and "text_factory" not in kw:
        kw["text_factory"] = _utf8fn
        _used("text_factory")
    if ENV.get("default_encoding") and "default_encoding" not in kw:
        kw["default_encoding"] = ENV["default_encoding"]
        _used("default_encoding")
    return kw


def text(t):
    """File / string input with Windows line ends (only when the text has no '\\r' of its own)."""
    if ENV.get("crlf") and "\r" not in t and "\n" in t:
        _used("crlf")
        return t.replace("\n", "\r\n")
    return t
