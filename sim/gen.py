"""
Seeded workload generation: structural features (the independent truth the model uses)
and their rendering as GFF3 / GTF text in a chosen dialect (what gffutils gets to parse).

Alphabets are deliberately tiny so that collisions, shared parents, adjacency and bin
edges happen within a handful of operations (DESIGN §2.6).
"""
from .model import mf

SEQIDS = ["chr1", "chr2", "2L"]
SOURCES = ["src", "alt"]
GFF_TYPES = ["gene", "mRNA", "exon", "CDS"]
IDS = ["a", "b", "c", "d", "e", "f"]
STRANDS = ["+", "-", "."]
SCORES = [".", "0.5", "7"]
FRAMES = [".", "0", "1", "2"]

BIN_EDGES = [1 << 17, 1 << 20, 1 << 23, 1 << 26, 1 << 29]


def coord_pool(rng, big=False):
    pool = [1, 2, 3, 5, 8, 10, 11, 12, 20, 21, 30, 40, 50]
    if big:
        for e in BIN_EDGES:
            pool += [e - 1, e, e + 1]
        pool += [2 * (1 << 17) - 1, 2 * (1 << 17), 2 * (1 << 17) + 1, 9 * (1 << 17), (1 << 29) + 50]
    return pool


def rand_span(rng, pool):
    a = rng.choice(pool)
    b = rng.choice(pool)
    if a > b:
        a, b = b, a
    return a, b


# ----------------------------------------------------------------------------- rendering

_ESC = "\n\t\r%;=&,"


def esc(v, raw_eq=False):
    out = []
    for ch in v:
        if raw_eq and ch == "=":
            out.append(ch)  # files in the wild write '=' inside a value unescaped (Note=identity=99.5)
        elif ch in _ESC or ord(ch) < 32 or ord(ch) == 127:
            out.append("%%%02X" % ord(ch))
        else:
            out.append(ch)
    return "".join(out)


DEFAULT_GFF3 = {"fmt": "gff3", "fsep": ";", "trail": False, "repeat": False}
DEFAULT_GTF = {"fmt": "gtf", "fsep": "; ", "trail": True, "repeat": False}


def render_attrs(attrs, d):
    parts = []
    if d["fmt"] == "gff3":
        for k, vals in attrs:
            if d.get("repeat") and len(vals) > 1:
                for v in vals:
                    parts.append("%s=%s" % (k, esc(v, d.get("raw_eq"))))
            elif vals:
                parts.append("%s=%s" % (k, ",".join(esc(v, d.get("raw_eq")) for v in vals)))
            else:
                parts.append(k)
    else:  # gtf / gff2: key "value"
        q = '"' if d.get("quoted", True) else ""
        for k, vals in attrs:
            if d.get("repeat") and len(vals) > 1:
                for v in vals:
                    parts.append("%s %s%s%s" % (k, q, v, q))
            elif vals:
                parts.append("%s %s%s%s" % (k, q, ",".join(vals), q))
            else:
                parts.append('%s ""' % k)
    s = d["fsep"].join(parts)
    if d.get("trail") and parts:
        s += ";"
    return s


def render_line(f, d=DEFAULT_GFF3):
    if f.get("_repeat") and not d.get("repeat"):
        d = dict(d, repeat=True)  # this line spells multi-valued attributes as repeated keys
    c = f["cols"]
    cols = [c[0], c[1], c[2], "." if c[3] is None else str(c[3]), "." if c[4] is None else str(c[4]), c[5], c[6], c[7]]
    line = "\t".join(cols) + "\t" + render_attrs(f["attrs"], d)
    if f["extra"]:
        line += "\t" + "\t".join(f["extra"])
    return line


def render_text(feats, d=DEFAULT_GFF3, directives=()):
    out = ["##" + x for x in directives]
    out += [render_line(f, d) for f in feats]
    return "\n".join(out) + "\n"


# ----------------------------------------------------------------------------- GFF3 features


def gff3_feature(rng, cfg):
    """One structural GFF3 feature over the tiny alphabets.

    cfg: p_id (prob. of carrying an ID), ids, parents (pool of Parent values), pool (coords),
         p_parent, types, p_name
    """
    ids = cfg.get("ids", IDS)
    pool = cfg.get("pool") or coord_pool(rng)
    s, e = rand_span(rng, pool)
    ftype = rng.choice(cfg.get("types", GFF_TYPES))
    cols = [rng.choice(cfg.get("seqids", SEQIDS[:2])), rng.choice(cfg.get("sources", SOURCES[:1])), ftype, s, e,
            rng.choice(cfg.get("scores", SCORES[:1])), rng.choice(cfg.get("strands", STRANDS[:2])),
            rng.choice(cfg.get("frames", FRAMES[:1]))]
    attrs = []
    if rng.random() < cfg.get("p_id", 0.7):
        attrs.append(["ID", [rng.choice(ids)]])
    if rng.random() < cfg.get("p_parent", 0.5):
        k = 1 if rng.random() < 0.75 else 2
        ps = []
        for _ in range(k):
            p = rng.choice(cfg.get("parents", ids + ["zz"]))
            if p not in ps:
                ps.append(p)
        attrs.append(["Parent", ps])
    if rng.random() < cfg.get("p_name", 0.4):
        k = 1 if rng.random() < 0.7 else 2
        vals = []
        for _ in range(k):
            v = rng.choice(["n1", "n2", "n3"])
            if v not in vals:
                vals.append(v)
        attrs.append(["Name", vals])
    if rng.random() < cfg.get("p_note", 0.2):
        attrs.append(["note", [rng.choice(["x", "y"])]])
    if not attrs:
        attrs.append(["note", ["k"]])
    return mf(cols, attrs)


def gff3_batch(rng, n, cfg, unique_ids=False):
    out = []
    used = set()
    tries = 0
    while len(out) < n and tries < 10 * n + 10:
        tries += 1
        f = gff3_feature(rng, cfg)
        if unique_ids:
            i = [v for k, v in f["attrs"] if k == "ID"]
            if i:
                if i[0][0] in used:
                    continue
                used.add(i[0][0])
        out.append(f)
    return out


def lines_of(feats, d=DEFAULT_GFF3):
    return [render_line(f, d) for f in feats]


def source_spec(rng, feats, form=None, d=DEFAULT_GFF3, name=None, forms=("path", "list", "gen", "iter1", "string")):
    form = form or rng.choice(list(forms))
    spec = {"form": form}
    if form in ("path", "gz", "string"):
        spec["text"] = render_text(feats, d)
        if name:
            spec["name"] = name
    else:
        spec["lines"] = lines_of(feats, d)
    return spec


# ----------------------------------------------------------------------------- GTF annotations


def gtf_annotation(rng, cfg=None):
    """Genes / transcripts / exons / CDS with both ids on every line; one seqid+strand per gene
    (C03: 'on the exons' seqid and strand').  Options: explicit gene/transcript lines,
    transcripts without exons, shuffled line order."""
    cfg = cfg or {}
    pool = cfg.get("pool") or [1, 5, 10, 20, 30, 40, 50, 60]
    n_genes = rng.randint(1, cfg.get("max_genes", 3)) if cfg.get("max_genes", 3) <= 10 else cfg["max_genes"]
    sub = cfg.get("subfeature", "exon")
    tk = cfg.get("transcript_key", "transcript_id")
    gk = cfg.get("gene_key", "gene_id")
    feats = []
    tcount = 0
    idfmt = "%s;%d" if cfg.get("odd_ids") else "%s%d"  # quoted GTF ids may contain a semicolon
    for gi in range(n_genes):
        g = idfmt % ("G", gi + 1)
        seqid = rng.choice(cfg.get("seqids", ["chr1", "chr2"]))
        strand = rng.choice(["+", "-"])
        glines = []
        for ti in range(rng.randint(1, cfg.get("max_tx", 2))):
            tcount += 1
            t = idfmt % ("T", tcount)
            n_ex = rng.choice(cfg.get("n_exons", [0, 1, 1, 2, 3]))
            spans = []
            for _ in range(n_ex):
                s, e = rand_span(rng, pool)
                spans.append((s, e))
                attrs = [[gk, [g]], [tk, [t]]]
                if rng.random() < 0.4:
                    attrs.append(["exon_number", [str(len(spans))]])
                glines.append(mf([seqid, "src", sub, s, e, ".", strand, "."], attrs))
            for _ in range(rng.choice([0, 0, 1, 2])):
                s, e = rand_span(rng, pool)
                glines.append(mf([seqid, "src", rng.choice(["CDS", "start_codon"]), s, e, ".", strand,
                                  rng.choice(["0", "1", "."])], [[gk, [g]], [tk, [t]]]))
            if cfg.get("explicit_tx") and rng.random() < 0.6:
                if spans and not cfg.get("explicit_odd"):
                    s, e = min(a for a, _ in spans), max(b for _, b in spans)
                else:
                    s, e = rand_span(rng, pool)
                glines.append(mf([seqid, cfg.get("explicit_source", "src"), "transcript", s, e, ".", strand, "."],
                                 [[gk, [g]], [tk, [t]]]))
        if cfg.get("gene_level") and rng.random() < 0.6:
            # a line that belongs to the gene as a whole (no transcript id): a level-2 child of its gene only
            s, e = rand_span(rng, pool)
            glines.append(mf([seqid, "src", rng.choice(["promoter", "enhancer"]), s, e, ".", strand, "."], [[gk, [g]]]))
        if cfg.get("explicit_gene") and rng.random() < 0.6:
            s, e = rand_span(rng, pool)
            glines.append(mf([seqid, cfg.get("explicit_source", "src"), "gene", s, e, ".", strand, "."], [[gk, [g]]]))
        if cfg.get("shuffle_within"):
            rng.shuffle(glines)
        feats.extend(glines)
    if cfg.get("tx_two_genes") and n_genes >= 2:
        # one transcript id used under two gene ids (trans-spliced / readthrough records): it is a child of both genes
        src = [f for f in feats if f["cols"][2] == sub]
        if src:
            e0 = rng.choice(src)
            g0 = [v for k, v in e0["attrs"] if k == gk][0][0]
            t0 = [v for k, v in e0["attrs"] if k == tk][0][0]
            others = sorted(set(v[0] for f in feats for k, v in f["attrs"] if k == gk and v[0] != g0))
            if others:
                s, e = rand_span(rng, pool)
                feats.append(mf([e0["cols"][0], "src", sub, s, e, ".", e0["cols"][6], "."], [[gk, [rng.choice(others)]], [tk, [t0]]]))
    if cfg.get("shuffle"):
        rng.shuffle(feats)
    return feats
