"""
Small scenarios shared by several checks.
"""

GFF3_PROBE = ["chrZ\tprobe\tgene\t1\t9\t.\t+\t.\tID=zzprobe1", "chrZ\tprobe\tmRNA\t1\t9\t.\t+\t.\tID=zzprobe2;Parent=zzprobe1",
              "chrZ\tprobe\texon\t2\t5\t.\t+\t.\tID=zzprobe3;Parent=zzprobe2"]
GTF_PROBE = ['chrZ\tprobe\texon\t1\t5\t.\t+\t.\tgene_id "ZZG"; transcript_id "ZZT";', 'chrZ\tprobe\texon\t7\t9\t.\t+\t.\tgene_id "ZZG"; transcript_id "ZZT";',
             'chrZ\tprobe\tCDS\t2\t4\t.\t+\t0\tgene_id "ZZG"; transcript_id "ZZT";']


def failed_update_probe(w, call, node, h, db, gtf, V, viol, clause, probes, k=2):
    """An update() whose data source raises on item k (the caller catches the error and carries on with the same
    handle): the call must fail, and neither this handle nor a fresh process may see any of its lines afterwards.
    Returns True when the scenario ran to its end without a violation."""
    pre = call(node, {"op": "dump", "h": h, "relations": False})
    if not pre["ok"]:
        return False
    ids0 = [f["id"] for f in pre["dump"]["features"]]
    kw = {"merge_strategy": "create_unique", "make_backup": False, "checklines": 0}
    if gtf:
        kw.update({"disable_infer_genes": True, "disable_infer_transcripts": True})
    r = call(node, {"op": "update", "h": h, "data": {"form": "gen", "lines": list(GTF_PROBE if gtf else GFF3_PROBE), "fail_at": k}, "kw": kw,
                    "no_env": True})
    if r["ok"]:
        V.append(viol(clause, "an update whose source raises on item %d was acknowledged" % k, kind="failure_swallowed"))
        return False
    call(node, {"op": "gc"})
    post = call(node, {"op": "dump", "h": h, "relations": False})
    if not post["ok"]:
        V.append(viol(clause, "after a failed update the handle cannot be read: %s %s" % (post["exc"], post["msg"]), kind="handle_unusable_after_failed_update"))
        return False
    ids1 = [f["id"] for f in post["dump"]["features"]]
    if ids1 != ids0:
        V.append(viol(clause, "after an update that failed on item %d the same handle lists %d features instead of %d (extra: %r)" % (
            k, len(ids1), len(ids0), [i for i in ids1 if i not in ids0][:4]), kind="partial_update_visible", where="handle"))
        return False
    obs = w.node()
    ro = call(obs, {"op": "open", "h": "o", "db": db})
    do = call(obs, {"op": "dump", "h": "o", "relations": False}) if ro["ok"] else ro
    obs.close()
    if do["ok"] and [f["id"] for f in do["dump"]["features"]] != ids0:
        V.append(viol(clause, "after an update that failed on item %d a fresh process finds %d features instead of %d" % (
            k, len(do["dump"]["features"]), len(ids0)), kind="partial_update_visible", where="fresh"))
        return False
    probes["failed_update_then_same_handle_read"] = 1
    return True
