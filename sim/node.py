"""
Nodes: real forked OS processes that run real gffutils code under the seams.

Parent side: Node(world, node_id).call(op) / .send(op) + .recv()
Child side : node_main() loop executing ops (sim.ops.execute) and replying.

Frames are length-prefixed pickles.  A node that dies (planned crash or not) shows
up as EOF on its pipe; the parent reaps it and reports the exit status.
"""
import os
import pickle
import select
import signal
import struct
import sys

from . import seams


class NodeDied(Exception):
    def __init__(self, status, where=None):
        Exception.__init__(self, "node died status=%r" % (status,))
        self.status = status
        self.where = where


class HarnessError(Exception):
    pass


def _write_frame(fd, obj):
    data = pickle.dumps(obj, protocol=4)
    data = struct.pack("<I", len(data)) + data
    off = 0
    while off < len(data):
        off += seams._real_os_write(fd, data[off:])


def _read_exact(fd, n, timeout):
    buf = b""
    while len(buf) < n:
        if timeout is not None:
            r, _, _ = select.select([fd], [], [], timeout)
            if not r:
                raise TimeoutError()
        chunk = os.read(fd, n - len(buf))
        if not chunk:
            raise EOFError()
        buf += chunk
    return buf


def _read_frame(fd, timeout=None):
    head = _read_exact(fd, 4, timeout)
    (n,) = struct.unpack("<I", head)
    return pickle.loads(_read_exact(fd, n, timeout))


class Node(object):
    TIMEOUT = 60.0

    def __init__(self, world, node_id, lockstep_kinds=None, tmp_names=None, trace_sql=False, prelude=True):
        self.world = world
        self.node_id = node_id
        self.alive = True
        self.exit_status = None
        self.crash_note = None
        pr, cw = os.pipe()
        cr, pw = os.pipe()
        sys.stdout.flush()
        sys.stderr.flush()
        pid = os.fork()
        if pid == 0:
            try:
                os.close(pr)
                os.close(pw)
                _child_main(world, node_id, cr, cw, lockstep_kinds, tmp_names, trace_sql, prelude)
            except BaseException:
                try:
                    import traceback

                    traceback.print_exc(file=sys.__stderr__)
                except BaseException:
                    pass
                os._exit(99)
            os._exit(0)
        os.close(cr)
        os.close(cw)
        self.pid = pid
        self.rfd = pr
        self.wfd = pw

    # ---- async protocol (lock-step) ----
    def send(self, msg):
        try:
            _write_frame(self.wfd, msg)
        except BrokenPipeError:
            self._reap()
            raise NodeDied(self.exit_status)

    def recv(self):
        try:
            return _read_frame(self.rfd, self.TIMEOUT)
        except EOFError:
            self._reap()
            raise NodeDied(self.exit_status, self.crash_note)
        except TimeoutError:
            self.kill()
            raise HarnessError("node %d: no reply within %ss" % (self.node_id, self.TIMEOUT))

    # ---- sync protocol ----
    def call(self, op):
        self.send(op)
        while True:
            m = self.recv()
            if m[0] == "done":
                return m[1]
            if m[0] == "crashing":
                self.crash_note = m[1]
                continue
            if m[0] == "park":
                # not in lock-step: release immediately
                self.send(("go",))
                continue
            raise HarnessError("unexpected frame %r" % (m[0],))

    def _reap(self):
        if self.alive:
            try:
                _, st = os.waitpid(self.pid, 0)
                self.exit_status = os.waitstatus_to_exitcode(st)
            except ChildProcessError:
                self.exit_status = None
            self.alive = False
            self._close_fds()

    def _close_fds(self):
        for fd in (self.rfd, self.wfd):
            try:
                os.close(fd)
            except OSError:
                pass

    def kill(self):
        if self.alive:
            try:
                os.kill(self.pid, signal.SIGKILL)
            except ProcessLookupError:
                pass
            self._reap()

    def close(self):
        """Orderly exit (like a normal interpreter exit without atexit side effects)."""
        if self.alive:
            try:
                self.send({"op": "exit"})
            except NodeDied:
                return
            try:
                while True:
                    _read_frame(self.rfd, self.TIMEOUT)
            except (EOFError, TimeoutError):
                pass
            self._reap()


def _child_main(world, node_id, rfd, wfd, lockstep_kinds, tmp_names, trace_sql, prelude=True):
    # the node never writes to the inherited stdout/stderr (GTF import prints progress)
    devnull = os.open(os.devnull, os.O_WRONLY)
    os.dup2(devnull, 2)
    os.dup2(devnull, 1)
    import warnings

    warnings.simplefilter("ignore")
    ctx = seams.enter_node(world, node_id)
    ctx.tmp_names = tmp_names
    ctx.trace_sql = trace_sql

    def on_crash(idx, kind):
        try:
            _write_frame(wfd, ("crashing", {"at": idx, "kind": kind, "log": list(ctx.log)}))
        except BaseException:
            pass

    ctx.on_crash = on_crash

    if lockstep_kinds:
        def park(kind, detail):
            _write_frame(wfd, ("park", kind, detail))
            m = _read_frame(rfd)
            if m[0] != "go":
                os._exit(98)

        ctx.park = park
        ctx.park_kinds = tuple(lockstep_kinds)

    from . import ops

    state = ops.NodeState(world, node_id, ctx)
    state.allow_prelude = bool(prelude)
    while True:
        try:
            msg = _read_frame(rfd)
        except EOFError:
            os._exit(0)
        if msg.get("op") == "exit":
            # orderly exit: what a normal interpreter exit still does for the library
            ops.run_exit_finalizers()
            os._exit(0)
        res = ops.execute(state, msg)
        _write_frame(wfd, ("done", res))
