#!/usr/bin/env python3
"""Regenerates MANIFEST.json from the table below (keeps it valid at all times)."""
import json, os, subprocess
HERE = os.path.dirname(os.path.abspath(__file__))
PY = "/venv/bin/python"

CHECKS = {
 "C10": dict(level="fault_enumeration",
   text="Seeded deterministic simulation of update/delete/add_relation/reopen/restart histories on a real file database "
        "inside forked node processes; for every history the feature source of its updates is failed at every position "
        "(enumerated) and sql-error/cancel/crash faults are sampled at seam points (incl. between the commits of one "
        "update); reference model after each acknowledged op, allowed-state membership after each failed op, id ledger, "
        ".bak == pre-op database, bounded liveness. Sampling over histories, enumeration over source-failure positions.",
   note="sqlite commit atomic (no torn pages); crashes only at Python-visible seam points; histories sampled over a small "
        "alphabet; GFF3 databases; id-recycling judged for fault-free and source-failure histories only",
   tech="deterministic simulation: seeded op histories + fault injection (source failure enumeration, sql error, cancel, crash) vs reference model",
   ref="DESIGN.md §5 C10"),
 "C20": dict(level="exploration",
   text="K real forked importer processes share one temp directory and are released one file-system seam point at a time by a "
        "seeded scheduler (one seed = one exactly repeatable interleaving), with identical temp-name candidate sequences, "
        "start offsets, and a crash or temp-dir error in one node; each output must equal the solitary run's database and no "
        "temp file of a finished importer may remain; then R reader processes interleaved per SQL statement must all see the "
        "solitary reader's content. Sampled schedules, not an exhaustive enumeration.",
   note="only temp-dir / database-file operations are scheduling points (private sqlite statements commute); one process runs at a time",
   tech="deterministic simulation: lock-step scheduling of real processes at file-system seam points + crash / temp-dir fault injection",
   ref="DESIGN.md §5 C20, §2.5"),
 "C19": dict(level="exploration",
   text="Seeded histories on an existing database file: create_db(force=False) onto it (same/fresh process, other handle open, "
        "sql-error/cancel/crash injected into the refused call) must raise and leave raw bytes and logical content untouched; "
        "force=True must equal a fresh import; random sequences of 17 read-style methods with arbitrary arguments and "
        "fully/partially/abandoned generators, optional crash-exit with open generators, must leave file bytes, transaction "
        "state and the content seen by a fresh process unchanged.",
   note="'no writes' judged by file bytes + in_transaction + logical content from a fresh process; inputs sampled",
   tech="deterministic simulation: seeded read/refused-write histories with crash and sql-error injection, byte- and content-level observers",
   ref="DESIGN.md §5 C19"),
 "C14": dict(level="exploration",
   text="Seeded files interleaving directives, comments, blank lines, features and FASTA tails, with directives before/inside/after "
        "the dialect-peek window; the two-pass read protocol and the hand-off of the directive list to the importer are observed "
        "through DataIterator (1-2 passes), create_db (path/from_string), a second handle, and a fresh process after normal exit "
        "or crash-exit. Sampled inputs; persistence and vantage points simulated.",
   note="only truly empty lines as blanks; sqlite commit atomic; inputs sampled",
   tech="deterministic simulation: seeded two-pass stream protocol runs with restart/crash-exit and multi-vantage observation vs directive ledger",
   ref="DESIGN.md §5 C14"),
 "C13": dict(level="exploration",
   text="One annotation driven through all input forms with instrumented one-shot sources (delivery ledger), instrumented transforms "
        "(call ledger), checklines inside/at/beyond the input, early EOF and source failures placed relative to the peek window; "
        "stored database compared with the path form's; inspect() against an independent count.",
   note="inputs sampled; printed lines not compared across forms; re-iterables hiding one-shot iterators not generated",
   tech="deterministic simulation: instrumented one-shot streams with EOF/failure injection at chosen positions, exactly-once delivery and call ledgers",
   ref="DESIGN.md §5 C13"),
 "C02": dict(level="exploration",
   text="Store conformance of the persisted relations table: seeded GFF3 DAGs (depth<=4, multi-parent, dangling, shuffled) imported and "
        "extended by updates with reopen/restart between steps and ENOSPC/EIO/crash faults on the relations temp file; every "
        "stored feature queried for children/parents at levels 1, 2, None with filters, through handle, reopened handle and a "
        "fresh process. The graph space is sampled, not enumerated.",
   note="unique ids; graphs sampled over a small alphabet; sqlite commit atomic",
   tech="deterministic simulation: seeded import+update histories with restart and temp-file fault injection vs Parent-graph model",
   ref="DESIGN.md §5 C02"),
 "C03": dict(level="exploration",
   text="Store conformance of GTF-derived state: seeded annotations (explicit lines, shuffles, exon-less transcripts, custom keys) x "
        "the four disable_infer settings; derived extents, retrievability and the three relation levels compared with a model "
        "through handle, reopen and fresh process; temp-file faults must fail the import loudly.",
   note="both ids on every line, one seqid/strand per gene; inputs sampled",
   tech="deterministic simulation: seeded GTF imports with restart and temp-file fault injection vs inference model",
   ref="DESIGN.md §5 C03"),
 "C04": dict(level="exploration",
   text="The id counters live in the importer, the handle and the autoincrements table; seeded imports under 20 id_spec forms followed by "
        "updates with reopen/restart/gc between them; every key (input order), every look-up, FeatureNotFoundError for absent keys, "
        "rejection of multi-valued id attributes and continued numbering are compared with a model of the derivation rule.",
   note="collisions resolved by create_unique; explicit ids of the form <base>_<n> not generated; inputs sampled",
   tech="deterministic simulation: seeded import/update/reopen/restart histories vs id-derivation model",
   ref="DESIGN.md §5 C04"),
 "C05": dict(level="exploration",
   text="Histories of colliding arrivals across create_db and update under all five strategies and force_merge_fields subsets, with "
        "reopen/restart/gc between arrivals so that the duplicates table and counters come back from disk; features, attribute value "
        "sets and Parent links compared with a model of the statement (conservation: nothing lost, nothing invented). GFF3 and GTF importers.",
   note="value order in merged attributes open; ambiguous multi-candidate merges discarded; level-2 rows not compared after a link-changing replace",
   tech="deterministic simulation: seeded collision histories with reopen/restart vs strategy model",
   ref="DESIGN.md §5 C05"),
 "C06": dict(level="exploration",
   text="features.bin is a persisted index: seeded histories (import with shifting transforms, update replace/merge, add_relation with a "
        "moving child_func, merge_all, reopen/restart) over coordinates on and around every bin boundary and 2**29; after each write op "
        "the bin column is checked by raw SQL from an outside connection against independent arithmetic, and region()/limit= queries in "
        "all forms are compared with a full scan of the same database.",
   note="coordinates/queries sampled from a boundary-biased pool, not enumerated; one-sided queries judged with the statement's two-sided bound",
   tech="deterministic simulation: seeded write histories with restart + index-invariant observer + query-vs-scan oracle",
   ref="DESIGN.md §5 C06"),
 "C11": dict(level="exploration",
   text="Store conformance of filters/ordering/counts over states reached by import, replace/create_unique/merge updates, deletes, reopen "
        "and restart; unordered iteration must be input order (model tracks positions through replace and delete); every order_by column "
        "incl. 'length'/'file_order' as string or tuple, reverse, featuretype collections, strand; counts and distinct-value listings.",
   note="ties compared as multisets; multi-column reverse not judged; inputs sampled",
   tech="deterministic simulation: seeded write histories with restart vs scan-and-sort model",
   ref="DESIGN.md §5 C11"),
 "C01": dict(level="exploration",
   text="The acknowledged import is observed through the returned handle, a second handle opened while the importer's connection is "
        "alive, a fresh process after normal exit and after a crash-exit right after the acknowledgement, and through the history "
        "import -> print all -> re-import; per line: columns, extra columns, ordered attributes and byte-identical printed form, in "
        "input order. The dialect space (3 families x separators x trailing semicolon x repeated keys x escapes x extra columns x '.' "
        "coordinates x flags) is sampled.",
   note="dialects sampled, not enumerated (the pure parse/print laws C07-C09 are not applicable to this technique); sqlite commit atomic",
   tech="deterministic simulation: import observed from several connections/processes incl. crash-exit, export/re-import history",
   ref="DESIGN.md §5 C01"),
 "C16": dict(level="exploration",
   text="merge/merge_all as operations on a handle and a store: histories of merge (many criteria sets), re-merge of the same objects, "
        "children_bp, merge_all (groups, exclude_components), gc, reopen, restart, crash-exit after merge_all; operational run rule of the "
        "statement, independent interval union for default criteria, partition law, id freshness across merges and sessions, database "
        "file untouched by merge/children_bp, content read by a fresh process after merge_all. Geometry sampled over 8 positions.",
   note="interval geometry sampled (the statement's exhaustive small-scope quantifier is another technique's); explicit <type>_<n> ids not generated",
   tech="deterministic simulation: seeded merge/merge_all histories with restart and crash-exit vs operational merge model",
   ref="DESIGN.md §5 C16"),
}

NA = {
 "C07": "pure function of one line (feature_from_line / str): no state, stream, schedule or fault to simulate",
 "C08": "print/parse of an attribute mapping is a pure function of (mapping, dialect); nothing to inject or interleave",
 "C09": "the inferred dialect is a pure function of the inspected prefix; its persistence is observed under C01",
 "C12": "bins(start, end) is a pure integer function; its quantifier asks for boundary enumeration (another family)",
 "C15": "interfeature/intron/splice-site geometry is a pure function of the ordered argument list; its 'database unchanged' clause is decided under C19",
 "C17": "value semantics of in-memory attribute containers; the stored JSON round trip is observed under C01",
 "C18": "len/sequence/BED12 are arithmetic on already-fetched values; no seam for a fault or schedule",
}
PENDING = dict((k, "simulation check designed (DESIGN.md §5) but not built yet; not claimed until it runs clean on the unchanged tree") for k in ["C01","C02","C03","C04","C05","C06","C11","C13","C14","C16","C19","C20"] if k not in CHECKS)

def main():
    hooks_commits = []
    m = {
     "version": 1,
     "setup_cmd": "/venv/bin/python checks/setup.py",
     "hooks": {"guard": "GFFUTILS_VERIF", "enable": "none needed: every seam is installed from outside at the stdlib boundary (sqlite3.connect, builtins.open, os.unlink, shutil.copy2, tempfile name sequence, gc); /repo carries no hook",
               "baseline_off_cmd": "cd /repo && /venv/bin/python -m pytest -ra -q -p no:cacheprovider --timeout=900 --continue-on-collection-errors",
               "source_commits": hooks_commits, "add_only": True},
     "engines": [{"name": "gffsim", "path": "sim/", "serves_properties": sorted(CHECKS),
                  "kind_free_text": "deterministic simulation with fault injection: forked node processes running real gffutils under stdlib-level seams, seeded workload/fault/schedule generation, reference model, delta-debugging replay files"}],
     "checks": [], "not_applicable": [],
     "notes": "checks/run.py <ID> --tier quick|thorough [--replay file]; exit 0 pass (KNOWN-FINDING lines possible), 1 VIOLATION, 2 HARNESS-ERROR. known_findings.json lists recorded and fixed defects. Every run additionally draws environment knobs (sim/env.py: odd database file names, verbose, CRLF, documented no-op flags, equivalent text factory / default_encoding, a process-reuse prelude) that the unchanged library must be indifferent to; they are part of the replay file.",
    }
    for cid in sorted(CHECKS):
        c = CHECKS[cid]
        m["checks"].append({
            "property_id": cid,
            "quick_cmd": "timeout 900 %s checks/run.py %s --tier quick" % (PY, cid),
            "thorough_cmd": "timeout 7200 %s checks/run.py %s --tier thorough" % (PY, cid),
            "evidence_file": "evidence/%s.json" % cid,
            "replay_cmd_template": "%s checks/run.py %s --replay {path}" % (PY, cid),
            "engine": "gffsim",
            "level_claimed": {"category": c["level"], "text": c["text"], "design_ref": c["ref"]},
            "level_note": c["note"],
            "technique": c["tech"],
        })
    for pid in sorted(NA):
        m["not_applicable"].append({"property_id": pid, "reason": NA[pid]})
    for pid in sorted(PENDING):
        m["not_applicable"].append({"property_id": pid, "reason": PENDING[pid]})
    with open(os.path.join(HERE, "MANIFEST.json"), "w") as fh:
        json.dump(m, fh, indent=1)

if __name__ == "__main__":
    main()
