"""
C11 - feature-type / strand filters, ordering and counts agree with a full scan.

Store conformance over database states reached by import, update (replace keeps the first
arrival's position, create_unique, merge), delete, reopen and restart: every filter /
order_by / reverse combination is compared with a model scan + stable sort of the same
database's content; unordered full iteration must be input order (the model tracks
positions through replace and delete); counts and distinct-value listings must agree.
"""
import random

from sim import core
from sim import gen as G
from sim.core import World
from sim.model import Model, ModelError, Undefined, mf
from sim.runner import viol

ID = "C11"
LEVEL = "exploration"
RULE = ("seeded histories create -> {update(replace|create_unique|merge), delete, reopen, restart} over features with mixed-case, "
        "non-ASCII and numeric-looking text columns and many ties; 10-16 queries per state over featuretype (string/collection) x "
        "strand x order_by (every valid column, 'length', 'file_order', string or tuple, 1-3 columns) x reverse; distinct = journal "
        "hash; non-trivial = >= 1 ordered query over >= 3 matching features")
ASSUMPTIONS = ["order within ORDER BY ties is compared as a multiset (sqlite does not promise an order there)",
               "reverse with several order_by columns is not judged (the statement defines it for a single column)"]

ORDER_COLS = ["seqid", "source", "featuretype", "start", "end", "score", "strand", "frame", "attributes", "extra", "file_order", "length"]
CI = {"seqid": 0, "source": 1, "featuretype": 2, "start": 3, "end": 4, "score": 5, "strand": 6, "frame": 7}
SEQIDS = ["chr1", "Chr1", "chr10", "chr9", "10", "9", "chrÄ", "2L"]
TYPES = ["gene", "Gene", "exon", "CDS"]
MANY_TYPES = TYPES + ["mRNA", "ncRNA", "tRNA", "intron", "UTR", "five prime UTR", "match,part"]  # a type is any text of column 3


def budget(tier):
    if tier == "quick":
        return {"runs": 2400, "wall": 120, "chunk": 6}
    return {"runs": 60000, "wall": 1500, "chunk": 8}


def feat(rng, ident=None, types=TYPES):
    s = rng.choice([1, 1, 5, 10, 10, 100])
    e = s + rng.choice([0, 0, 4, 9, 90])
    if s > 1 and rng.random() < 0.06:
        e = s - 1  # a zero-length feature (insertion site), written start = end + 1: length 0, sorts before length 1
    attrs = [["ID", [ident]]] if ident else [["note", [rng.choice(["k", "j"])]]]
    if rng.random() < 0.3:
        attrs.append(["Name", [rng.choice(["n1", "N1", "né"])]])
    extra = [rng.choice(["x", "y"])] if rng.random() < 0.2 else []
    return mf([rng.choice(SEQIDS), rng.choice(["src", "Src", "alt"]), rng.choice(types), s, e, rng.choice([".", "10", "9", "9.5", "0"]),
               rng.choice(["+", "-", "."]), rng.choice([".", "0", "1", "2"])], attrs, extra)


def gen_query(rng, TYPES=TYPES):
    q = {"m": rng.choice(["all_features", "all_features", "features_of_type"])}
    r = rng.random()
    if q["m"] == "features_of_type":
        q["featuretype"] = rng.choice([rng.choice(TYPES), rng.sample(TYPES, 2), rng.sample(TYPES, 3), "nothing"])
    elif r < 0.5:
        q["featuretype"] = rng.choice([rng.choice(TYPES), rng.sample(TYPES, 2), ["nothing", "gene"]])
    if rng.random() < 0.4:
        q["strand"] = rng.choice(["+", "-", "."])
    r = rng.random()
    if r < 0.75:
        k = rng.choice([1, 1, 1, 2, 3])
        cols = rng.sample(ORDER_COLS, k)
        if k == 1 and rng.random() < 0.5:
            q["order_by"] = cols[0]  # given as a string
        else:
            q["order_by"] = cols  # given as a tuple
        if k == 1:
            q["reverse"] = rng.random() < 0.5
    return q


def gen(rng, tier):
    ids = ["a", "b", "c", "d", "e", "f", "g"]
    # many distinct feature types make sqlite answer featuretype filters through its index; a minority of runs is
    # large enough (> 100 matching rows) for any internal batching of result rows to matter
    types = MANY_TYPES if rng.random() < 0.5 else TYPES
    n0 = rng.randint(3, 9) if rng.random() > 0.06 else rng.choice([130, 260, 1150])
    steps = [{"op": "create", "feats": [feat(rng, ids[i] if i < len(ids) and rng.random() < 0.7 else None, types) for i in range(n0)],
              "form": rng.choice(["path", "list", "gen"])}]
    for _ in range(rng.choice([0, 1, 1, 2, 3])):
        k = rng.choice(["update", "update", "delete", "reopen", "restart", "relate"])
        if k == "update":
            steps.append({"op": "update", "feats": [feat(rng, rng.choice(ids), types) for _ in range(rng.randint(1, 3))],
                          "strategy": rng.choice(["replace", "replace", "create_unique", "merge"]), "form": rng.choice(["list", "gen", "path"])})
        elif k == "relate":
            # add_relation whose child_func hands the child back with another featuretype / seqid (a write through _update)
            steps.append({"op": "relate", "pick": [rng.random(), rng.random()], "what": rng.choice(["retype", "reseq"]),
                          "to": rng.choice(["retyped", "exon", "Chr9", "chrR"])})
        elif k == "delete":
            steps.append({"op": "delete", "ids": rng.sample(ids + ["gene_1", "exon_1"], rng.choice([1, 2]))})
        else:
            steps.append({"op": k})
    memory = rng.random() < 0.2
    for st in steps:
        if st["op"] == "delete" and rng.random() < 0.5:
            # a result obtained before the delete, read after it (same handle)
            st["deferred"] = rng.choice([{"m": "all_features", "args": [], "kw": {}}, {"m": "all_features", "args": [], "kw": {}},
                                         {"m": "features_of_type", "args": [rng.choice(types)], "kw": {}},
                                         {"m": "all_features", "args": [], "kw": {"strand": rng.choice(["+", "-"])}},
                                         {"m": "all_features", "args": [], "kw": {"order_by": rng.choice(["start", "end", "featuretype"])}}])
        if st["op"] in ("update", "delete") and not memory and rng.random() < 0.25:
            st["via"] = "other_process"  # the write is made by another process while this handle stays open
    if memory:
        steps = [st for st in steps if st["op"] not in ("reopen", "restart")]
    queries = [gen_query(rng, types) for _ in range(rng.randint(10, 16))]
    # always present: the plain full scan, and input order requested explicitly for a collection of types
    queries.append({"m": "all_features"})
    queries.append({"m": "all_features", "featuretype": rng.sample(types, min(len(types), rng.choice([2, 3, 5]))), "order_by": rng.choice(["file_order", ["file_order"]])})
    if rng.random() < 0.3:
        # a very long collection of feature types (most of them absent), the present ones spread over it
        big = ["absent%d" % i for i in range(rng.choice([520, 1100]))]
        for t in types:
            big.insert(rng.randrange(len(big)), t)
        queries.append({"m": rng.choice(["all_features", "features_of_type"]), "featuretype": big,
                        "order_by": rng.choice([None, "start", ["seqid", "start"], "file_order", "length"]), "reverse": False})
    return {"steps": steps, "queries": queries, "qseed": rng.getrandbits(32), "memory": memory, "failed_update_probe": rng.random() < 0.25}


def sort_key(col, f, pos):
    if col == "file_order":
        return pos
    if col == "length":
        return f["cols"][4] - f["cols"][3]
    if col in ("attributes", "extra"):
        return None  # JSON text order: only judged as a permutation
    return f["cols"][CI[col]]


def run(case):
    out = {"violations": [], "probes": {}, "stats": {}, "digests": set()}
    V = out["violations"]
    probes = out["probes"]
    journal = []
    nontrivial = False
    qrng = random.Random(case["qseed"])
    model = Model("gff3")
    with World("c11_") as w:
        def call(n, op):
            r = w.call(n, op)
            journal.append((op["op"], op.get("m"), core.digest({k: v for k, v in r.items() if k != "kinds"})))
            return r

        def check_state(where):
            nonlocal nontrivial
            d = call(node, {"op": "dump", "h": "h", "relations": False})
            if not d["ok"]:
                V.append(viol("C11.read", "%s: dump failed %s %s" % (where, d["exc"], d["msg"]), kind="read_failed"))
                return False
            feats = d["dump"]["features"]
            ids = [f["id"] for f in feats]
            # input order: model positions through replace / delete
            model.auto_issued = []
            if ids != model.order:
                if sorted(ids) == sorted(model.order):
                    V.append(viol("C11.order", "%s: unordered full iteration %r is not input order %r" % (where, ids, model.order),
                                  kind="input_order"))
                else:
                    V.append(viol("C11.order", "%s: stored ids %r, expected %r" % (where, ids, model.order), kind="content"))
                return False
            pos = dict((f["id"], i) for i, f in enumerate(feats))
            out["digests"].add(core.digest(ids))
            for q in qrng.sample(case["queries"], min(len(case["queries"]), 8)):
                kw = {}
                args = []
                ft = q.get("featuretype")
                if q["m"] == "features_of_type":
                    args = [ft]
                elif ft is not None:
                    kw["featuretype"] = ft
                if q.get("strand"):
                    kw["strand"] = q["strand"]
                ob = q.get("order_by")
                if ob is not None:
                    kw["order_by"] = ob
                    if q.get("reverse"):
                        kw["reverse"] = True
                r = call(node, {"op": "read", "h": "h", "m": q["m"], "args": args, "kw": kw})
                desc = "%s(%s%r)" % (q["m"], ("%r, " % (ft,)) if args else "", kw)
                if not r["ok"]:
                    V.append(viol("C11.query", "%s: %s raised %s: %s" % (where, desc, r["exc"], r["msg"]), kind="query_failed",
                                  exc=r["exc"], order_by_form=type(ob).__name__, order_by=ob if isinstance(ob, str) else "tuple"))
                    return False
                got = r["out"]
                fts = None if ft is None else ([ft] if isinstance(ft, str) else ft)
                match = [f for f in feats if (fts is None or f["cols"][2] in fts) and (not q.get("strand") or f["cols"][6] == q["strand"])]
                mids = [f["id"] for f in match]
                if sorted(got) != sorted(mids):
                    V.append(viol("C11.filter", "%s: %s returned %r, the matching features are %r" % (where, desc, got, mids),
                                  kind="filter", lost=bool(set(mids) - set(got)), extra=bool(set(got) - set(mids)),
                                  ft_form=type(ft).__name__, strand=bool(q.get("strand"))))
                    return False
                if ob is not None:
                    cols = [ob] if isinstance(ob, str) else list(ob)
                    byid = dict((f["id"], f) for f in feats)
                    keys = []
                    judged = True
                    for i in got:
                        k = []
                        for c in cols:
                            sk = sort_key(c, byid[i], pos[i])
                            if sk is None:
                                judged = False
                            k.append(sk)
                        keys.append(k)
                    if judged:
                        if len(cols) == 1 and q.get("reverse"):
                            ok = all(keys[j] >= keys[j + 1] for j in range(len(keys) - 1))
                        elif len(cols) > 1 and q.get("reverse"):
                            ok = True
                        else:
                            ok = all(keys[j] <= keys[j + 1] for j in range(len(keys) - 1))
                        if not ok:
                            V.append(viol("C11.order", "%s: %s is not sorted: keys %r" % (where, desc, keys[:8]), kind="not_sorted",
                                          cols=",".join(cols), reverse=bool(q.get("reverse"))))
                            return False
                        if len(got) >= 3:
                            nontrivial = True
                elif fts is None and not q.get("strand"):
                    if got != ids:
                        V.append(viol("C11.order", "%s: full unordered iteration %r != input order %r" % (where, got, ids), kind="input_order"))
                        return False
                # counts
                if q["m"] == "features_of_type" and isinstance(ft, str):
                    c = call(node, {"op": "read", "h": "h", "m": "count_features_of_type", "args": [ft]})
                    if not c["ok"] or c["out"] != len(mids if not q.get("strand") else [f for f in feats if f["cols"][2] == ft]):
                        V.append(viol("C11.count", "%s: count_features_of_type(%r) = %r, iterated %d" % (
                            where, ft, c.get("out"), len([f for f in feats if f["cols"][2] == ft])), kind="count"))
                        return False
            # several result generators alive on the one handle, advanced in a seeded interleaving:
            # each must still yield exactly what it yields when consumed alone
            qs = qrng.sample(case["queries"], min(len(case["queries"]), qrng.choice([2, 2, 3])))
            if qrng.random() < 0.5:
                qs = [{"m": "all_features"}] + qs[:2]
            if qrng.random() < 0.5:
                qs = qs + [dict(qs[0])]  # two iterations of the very same query
                if qs[0].get("strand"):
                    qs[-1]["strand"] = {"+": "-", "-": "+", ".": "+"}[qs[0]["strand"]]  # same shape, other argument
            reqs = []
            for q in qs:
                kw = {}
                args = []
                if q["m"] == "features_of_type":
                    args = [q.get("featuretype")]
                elif q.get("featuretype") is not None:
                    kw["featuretype"] = q["featuretype"]
                if q.get("strand"):
                    kw["strand"] = q["strand"]
                if q.get("order_by") is not None:
                    kw["order_by"] = q["order_by"]
                    if q.get("reverse"):
                        kw["reverse"] = True
                reqs.append({"m": q["m"], "args": args, "kw": kw})
            if qrng.random() < 0.4:
                reqs.append({"m": qrng.choice(["featuretypes", "seqids"]), "args": [], "kw": {}})  # these listings are lazy too
            poke = None
            if qrng.random() < 0.4:
                poke = [qrng.choice([{"m": "count_features_of_type", "args": [qrng.choice(["exon", "gene", "mRNA"])]},
                                     {"m": "seqids"}, {"m": "featuretypes"}])]
            alone = []
            for rq in reqs:
                r = call(node, dict(rq, op="read", h="h"))
                alone.append(r["out"] if r["ok"] else None)
            if all(a is not None for a in alone):
                sched = [qrng.randrange(len(reqs)) for _ in range(qrng.randint(2, 30) if len(feats) < 100 else qrng.randint(150, 400))]
                ireq = {"op": "interleave", "h": "h", "queries": reqs, "schedule": sched}
                if poke:
                    ireq["poke"] = poke
                r = call(node, ireq)
                if not r["ok"]:
                    V.append(viol("C11.interleaved", "%s: interleaved iteration raised %s: %s" % (where, r["exc"], r["msg"]),
                                  kind="interleave_failed", exc=r["exc"]))
                    return False
                for rq, a, b in zip(reqs, alone, r["outs"]):
                    if a != b:
                        V.append(viol("C11.interleaved", "%s: %s%r yields %r when another iteration is alive on the handle (schedule %r), "
                                      "%r alone" % (where, rq["m"], rq["kw"], b, sched, a), kind="interleaved_differs"))
                        return False
                if len(set(sched)) > 1 and any(len(a) > 1 for a in alone):
                    probes["generators_interleaved"] = 1
            if len(feats) > 1000 and not case.get("memory"):
                # a full iteration during which the caller deletes features that were already delivered: every feature that
                # stays stored must still be delivered (whatever batching the iteration uses internally)
                r = call(node, {"op": "iterate_with_delete", "h": "h", "at": 5, "n": 3})
                if r["ok"]:
                    gone = set(r["deleted"])
                    want = [i for i in ids if i not in gone]
                    got2 = [i for i in r["ids"] if i not in gone]
                    model.delete(r["deleted"])
                    probes["iteration_with_deletes_over_1000_rows"] = 1
                    if got2 != want:
                        V.append(viol("C11.filter", "%s: a full iteration with deletions of delivered features returned %d of %d remaining features" % (
                            where, len(got2), len(want)), kind="iteration_with_deletes"))
                        return False
                    return True
            c = call(node, {"op": "read", "h": "h", "m": "count_features_of_type"})
            if not c["ok"] or c["out"] != len(feats):
                V.append(viol("C11.count", "%s: count_features_of_type() = %r, iterated %d" % (where, c.get("out"), len(feats)), kind="count_all"))
                return False
            for m, idx in (("featuretypes", 2), ("seqids", 0)):
                r = call(node, {"op": "read", "h": "h", "m": m})
                exp = sorted(set(f["cols"][idx] for f in feats))
                if not r["ok"] or sorted(r["out"]) != exp:
                    V.append(viol("C11.count", "%s: %s() = %r, distinct values present %r" % (where, m, r.get("out"), exp), kind=m))
                    return False
            return True

        node = w.node()
        alive = False
        DBN = ":memory:" if case.get("memory") else "a.db"
        stale = [False]

        def write_call(st, req):
            """through the handle, or by another process while the handle (and whatever it caches) stays alive"""
            if st.get("via") != "other_process":
                if stale[0]:
                    # this handle caches the id counters: before IT writes again after a foreign write it is reopened
                    # (two live writers are outside every statement); its reads were checked while still open
                    call(node, {"op": "drop", "h": "h"})
                    call(node, {"op": "gc"})
                    call(node, {"op": "open", "h": "h", "db": "a.db"})
                    stale[0] = False
                return call(node, req)
            stale[0] = True
            other = w.node()
            call(other, {"op": "open", "h": "h", "db": "a.db"})
            r_ = call(other, req)
            other.close()
            probes["write_by_other_process"] = 1
            return r_

        for si, st in enumerate(case["steps"]):
            k = st["op"]
            if k == "reopen" and alive:
                call(node, {"op": "drop", "h": "h"})
                call(node, {"op": "gc"})
                call(node, {"op": "open", "h": "h", "db": "a.db"})
                if not check_state("after reopen"):
                    break
                continue
            if k == "restart" and alive:
                node.close()
                node = w.node()
                call(node, {"op": "open", "h": "h", "db": "a.db"})
                if not check_state("after restart"):
                    break
                continue
            try:
                if k == "create":
                    model.import_gff3(st["feats"], strategy="create_unique")
                    r = call(node, {"op": "create", "h": "h", "db": DBN, "data": G.source_spec(None, st["feats"], form=st["form"]),
                                    "kw": {"merge_strategy": "create_unique"}})
                    if case.get("memory"):
                        probes["memory_database"] = 1
                elif k == "update" and alive:
                    model.import_gff3(st["feats"], strategy=st["strategy"])
                    r = write_call(st, {"op": "update", "h": "h", "data": G.source_spec(None, st["feats"], form=st["form"]),
                                        "kw": {"merge_strategy": st["strategy"], "make_backup": False}})
                    if st["strategy"] == "replace":
                        probes["replace_in_history"] = 1
                elif k == "relate" and alive and len(model.order) >= 2 and not stale[0]:
                    pa = model.order[int(st["pick"][0] * len(model.order)) % len(model.order)]
                    ch = model.order[int(st["pick"][1] * len(model.order)) % len(model.order)]
                    if pa == ch or (pa, ch, 1) in model.rel:
                        continue
                    model.rel.add((pa, ch, 1))
                    model.feats[ch]["cols"][2 if st["what"] == "retype" else 0] = st["to"]
                    r = call(node, {"op": "add_relation", "h": "h", "parent": pa, "child": ch, "level": 1, "child_func": st["what"], "to": st["to"]})
                    probes["add_relation_child_func_changes_type_or_seqid"] = 1
                elif k == "delete" and alive and st.get("deferred") and st.get("via") != "other_process" and not stale[0] and model.order:
                    # result obtained, features deleted (among them the first stored one), result read: what is read must be the
                    # answer of ONE state of the database - the one at the call or the one at the reading - never a blend
                    dids = list(dict.fromkeys([model.order[0]] + [i for i in st["ids"] if i in model.feats]))
                    model.delete(dids)
                    dq = st["deferred"]
                    r = call(node, {"op": "deferred_read", "h": "h", "ids": dids, "m": dq["m"], "args": dq["args"], "kw": dq["kw"]})
                    probes["delete_in_history"] = 1
                    if r["ok"]:
                        probes["result_obtained_before_a_delete_read_after_it"] = 1
                        if r["before"] != r["after"] and len(set(r["before"]) - set(r["after"])) > 1:
                            probes["result_obtained_before_a_delete_that_removes_its_first_and_a_later_row"] = 1
                        if r["got"] != r["after"] and r["got"] != r["before"]:
                            V.append(viol("C11.filter", "%s(%r, %r) obtained before delete(%r) and read after it yields %r: neither the answer "
                                          "before the delete %r nor the one after it %r" % (dq["m"], dq["args"], dq["kw"], dids, r["got"][:8],
                                                                                            r["before"][:8], r["after"][:8]),
                                          kind="deferred_read_blend", ordered="order_by" in dq["kw"]))
                            break
                elif k == "delete" and alive:
                    model.delete(st["ids"])
                    r = write_call(st, {"op": "delete", "h": "h", "ids": st["ids"], "form": "strs", "kw": {"make_backup": False}})
                    probes["delete_in_history"] = 1
                else:
                    continue
            except (ModelError, Undefined):
                out["discarded"] = True
                break
            if not r["ok"]:
                V.append(viol("C11.read", "%s raised %s: %s" % (k, r["exc"], r["msg"]), kind="write_failed", op=k))
                break
            alive = True
            if not check_state("after %s #%d" % (k, si)):
                break
        if alive and not V and not out.get("discarded") and not case.get("memory") and case.get("failed_update_probe") and node.alive:
            from sim.probes import failed_update_probe
            if failed_update_probe(w, call, node, "h", DBN, False, V, viol, "C11.read", probes):
                check_state("after an update that failed part-way")
        out["stats"] = w.stats
    out["trace_hash"] = core.digest(journal)
    out["nontrivial"] = nontrivial
    out["sample"] = {"steps": [dict((k, v) for k, v in s.items() if k != "feats") for s in case["steps"]],
                     "first_lines": G.lines_of(case["steps"][0]["feats"])[:5], "queries": case["queries"][:6]}
    return out
