"""
C20 - concurrent imports are independent and leave no temp files; concurrent readers
see the full content.

K real forked processes each run create_db(input_i, out_i) against one shared temp
directory.  Every node parks at each file-system seam point (temp-name choice, open,
close, unlink) and the seeded scheduler releases exactly ONE parked node at a time, so
a run is one exactly repeatable interleaving.  Temp-name candidate sequences are
identical in all nodes (worst legal case of a random generator).  One node may crash
or hit a full temp dir mid-import.  Then R reader processes scan one finished database,
interleaved at every SQL statement.
"""
import os

from sim import core
from sim import gen as G
from sim.core import World, raw_dump, logical
from sim.node import NodeDied, HarnessError
from sim.runner import viol
from sim.sched import lockstep, sched_str as _s

ID = "C20"
LEVEL = "exploration"
RULE = ("seeded cases: 2-8 importer processes (GFF3/GTF inputs from a small pool, path or from_string form, identical temp-name "
        "sequences) released one file-system seam point at a time by a seeded scheduler (uniform / bursty / round-robin / "
        "pile-up / delayed-start policies), optional crash or temp-dir error in one node; then 2-6 reader processes "
        "interleaved per SQL statement. distinct = hash of (schedule string, per-node event logs); non-trivial = >=2 "
        "importers whose temp-file lifetimes overlapped in the schedule, or >=2 readers interleaved")
ASSUMPTIONS = [
    "only points that touch objects shared between processes (the temp directory; for readers the database file) are "
    "scheduling points: sqlite statements on private output files commute with everything another process does",
    "exactly one process runs at a time, so process counts below/above the core count need no separate treatment",
]
PARK = ("fs.tmpname", "fs.open", "fs.close", "fs.unlink")


def budget(tier):
    if tier == "quick":
        return {"runs": 1000, "wall": 120, "chunk": 8}
    return {"runs": 60000, "wall": 1500, "chunk": 8}


def gen_input(rng):
    if rng.random() < 0.5:
        cfg = {"p_id": 0.8, "p_parent": 0.7, "types": ["gene", "mRNA", "exon"], "seqids": ["chr1"], "pool": [1, 5, 10, 20, 30]}
        feats = G.gff3_batch(rng, rng.randint(2, 7), cfg, unique_ids=True)
        return {"fmt": "gff3", "feats": feats}
    feats = []
    while not feats:
        cfg = {"max_genes": 2, "shuffle": rng.random() < 0.3}
        if rng.random() < 0.15:
            # a long chromosome: exons on both sides of 2**29, where the genomic-bin scheme ends
            cfg["pool"] = [1, 100, (1 << 29) - 100, (1 << 29) - 1, (1 << 29) + 5, (1 << 29) + 100]
        feats = G.gtf_annotation(rng, cfg)
    # the importer's documented options for GTF: either inference may be switched off
    kw = rng.choice([{}, {}, {"disable_infer_genes": True}, {"disable_infer_transcripts": True},
                     {"disable_infer_genes": True, "disable_infer_transcripts": True}])
    return {"fmt": "gtf", "feats": feats, "kw": kw}


def gen(rng, tier):
    n_inputs = rng.randint(1, 3)
    inputs = [gen_input(rng) for _ in range(n_inputs)]
    k = rng.choice([2, 2, 3, 3, 4, 5, 8])
    nodes = []
    for i in range(k):
        nodes.append({"input": rng.randrange(n_inputs), "form": rng.choice(["path", "path", "string", "gz"]),
                      "delay": rng.choice([0, 0, 0, 1, 3, 8])})
    fault = None
    r = rng.random()
    if r < 0.25:
        fault = {"node": rng.randrange(k), "mode": "crash", "frac": rng.random()}
    elif r < 0.4:
        fault = {"node": rng.randrange(k), "mode": "error", "kind": rng.choice(["fs.tmpname", "fs.write", "fs.unlink", "fs.open"]),
                 "nth": rng.choice([0, 0, 1])}
    elif r < 0.56 and r >= 0.48:
        # the user's transform callback of one importer raises on its k-th call; the program catches it (no infrastructure
        # fault: nothing excuses a temp file left behind by this importer)
        fault = {"node": rng.randrange(k), "mode": "callback", "at": rng.randint(1, 6)}
    elif r < 0.48:
        # a sibling dies in the middle of a write to its temp file (torn write)
        fault = {"node": rng.randrange(k), "mode": "torn", "kind": "fs.write", "nth": rng.choice([0, 0, 1, 2])}
    # second phase: some of the finished importers go on to update() their own database, again concurrently
    updates = []
    for i in range(k):
        if rng.random() < 0.45:
            fmt = inputs[nodes[i]["input"]]["fmt"]
            if fmt == "gff3":
                cfg = {"p_id": 1.0, "p_parent": 0.7, "types": ["mRNA", "exon"], "seqids": ["chr1"], "pool": [1, 5, 10, 20, 30],
                       "ids": ["u1", "u2", "u3", "u4"], "parents": G.IDS[:4] + ["u1"]}
                uf = G.gff3_batch(rng, rng.randint(1, 4), cfg, unique_ids=True)
            else:
                uf = []
                while not uf:
                    uf = G.gtf_annotation(rng, {"max_genes": 2})
                for f in uf:
                    for kv in f["attrs"]:
                        if kv[0] in ("gene_id", "transcript_id"):
                            kv[1] = ["U" + kv[1][0]]
            updates.append({"feats": uf, "form": rng.choice(["path", "list", "string"])})
        else:
            updates.append(None)
    return {"inputs": inputs, "nodes": nodes, "updates": updates, "policy": rng.choice(["uniform", "bursty", "rr", "pileup", "uniform"]),
            "names": rng.choice(["identical", "identical", "repeat", "distinct"]),
            "sched_seed": rng.getrandbits(32), "fault": fault, "readers": rng.choice([0, 2, 3, 6]),
            "reader_seed": rng.getrandbits(32)}


def _text(inp):
    return G.render_text(inp["feats"], G.DEFAULT_GFF3 if inp["fmt"] == "gff3" else G.DEFAULT_GTF)


def _db(i):
    # every importer writes <its own directory>/annotation.db: separate output files that share a basename
    return "d%d/annotation.db" % i


def _req(case, i, nd):
    inp = case["inputs"][nd["input"]]
    # every importer reads <its own directory>/genes.<fmt>[.gz]: separate input files that share a basename
    data = {"form": nd["form"], "text": _text(inp), "name": "s%d/genes.%s" % (i, inp["fmt"])}
    return {"op": "create", "h": "h", "db": _db(i), "data": data, "kw": dict(inp.get("kw") or {}, merge_strategy="create_unique"),
            "want_log": True}


def _upd_req(case, i):
    u = (case.get("updates") or [None] * len(case["nodes"]))[i]
    if u is None:
        return None
    fmt = case["inputs"][case["nodes"][i]["input"]]["fmt"]
    d = G.DEFAULT_GFF3 if fmt == "gff3" else G.DEFAULT_GTF
    spec = G.source_spec(None, u["feats"], form=u["form"], d=d, name="upd%d.%s" % (i, fmt))
    return {"op": "update", "h": "h", "data": spec,
            "kw": dict(case["inputs"][case["nodes"][i]["input"]].get("kw") or {}, merge_strategy="create_unique", make_backup=False),
            "want_log": True}


def _names(case, i):
    if case["names"] == "identical":
        return None
    if case["names"] == "repeat":
        return ["r0", "r0", "r1", "r0", "r1", "r2", "r2"]
    return ["n%d_%d" % (i, j) for j in range(40)]


def solitary(case, i, nd, cache):
    import os

    u = (case.get("updates") or [None] * len(case["nodes"]))[i]
    key = (nd["input"], nd["form"], core.digest(u) if u else None)
    if key in cache:
        return cache[key]
    with World("c20s_") as w:
        os.makedirs(w.p("d%d" % i))
        n = w.node(tmp_names=_names(case, i), prelude=False)  # the solitary reference run is a fresh process
        r = w.call(n, _req(case, i, nd))
        res = {"ok": r["ok"], "exc": r.get("exc"), "msg": r.get("msg"), "points": r["points"], "upd_points": 0,
               "dump": logical(raw_dump(w.p(_db(i)))) if r["ok"] else None, "dump2": None,
               "format": core.file_format(w.p(_db(i))) if r["ok"] else None}
        if r["ok"] and u is not None:
            r2 = w.call(n, _upd_req(case, i))
            res["upd_ok"] = r2["ok"]
            res["upd_points"] = r2["points"]
            res["upd_err"] = "%s %s" % (r2.get("exc"), r2.get("msg"))
            if r2["ok"]:
                res["dump2"] = logical(raw_dump(w.p(_db(i))))
        n.close()
        res["left"] = w.tmp_files()
        res["stats"] = w.stats
    cache[key] = res
    return res


def run(case):
    import os
    import random

    out = {"violations": [], "probes": {}, "stats": {}, "schedules": set()}
    probes = out["probes"]
    V = out["violations"]
    nodes = case["nodes"]
    if len(nodes) < 1:
        return out
    updates = case.get("updates") or [None] * len(nodes)
    cache = {}
    sol = []
    stats = {"nodes": 0, "crashes": 0, "points": 0, "ops": 0, "kinds": {}, "fired": {}}
    for i, nd in enumerate(nodes):
        sol.append(solitary(case, i, nd, cache))
    for s in cache.values():
        _merge(stats, s["stats"])
        if not s["ok"] or s.get("upd_ok") is False:
            V.append(viol("C20.solitary", "a solitary import/update fails: %s %s %s" % (s["exc"], s["msg"], s.get("upd_err")),
                          kind="solitary_failed"))
            out["stats"] = stats
            return out
        if s["left"]:
            V.append(viol("C20.tempfiles", "a solitary import leaves temp files behind: %r" % s["left"], kind="leftover_solitary"))
    fault = case.get("fault")
    rng = random.Random(case["sched_seed"])
    journal = []
    with World("c20_") as w:
        ns = []
        for i, nd in enumerate(nodes):
            os.makedirs(w.p("d%d" % i))
            ns.append(w.node(lockstep_kinds=PARK, tmp_names=_names(case, i)))

        def req1(i):
            req = _req(case, i, nodes[i])
            if fault and fault["node"] == i and fault["mode"] == "callback":
                req["transform"] = {"kind": "identity", "raise_once_at": fault["at"]}
                req["src"] = "cb%d" % i
            elif fault and fault["node"] == i and fault.get("phase", 1) == 1:
                if "frac" in fault:
                    req["faults"] = [{"at": int(fault["frac"] * sol[i]["points"]), "mode": fault["mode"]}]
                else:
                    req["faults"] = [{"kind": fault["kind"], "nth": fault.get("nth", 0), "mode": fault["mode"]}]
            return req

        planned = (fault["node"],) if fault and fault["mode"] in ("crash", "torn") else ()
        ph1 = lockstep(w, ns, req1, rng, case["policy"], [nd.get("delay", 0) for nd in nodes], journal, planned)
        for i, st in ph1["unexpected_deaths"]:
            V.append(viol("C20.independent", "importer %d died unexpectedly (status %r)" % (i, st), kind="node_died"))
        state, result, created, pending = ph1["state"], ph1["result"], ph1["created"], ph1["pending"]
        sched = list(ph1["sched"])
        overlap = ph1["overlap"]
        faulty = fault["node"] if fault else None

        def check_outputs(results, which, dump_key, phase):
            for i in which:
                r = results[i]
                if r is None:
                    continue
                if not r["ok"]:
                    if i == faulty and (r.get("injected") or phase == 2 or (fault["mode"] == "callback" and r.get("exc") == "SourceError")):
                        probes["faulted_node_failed"] = probes.get("faulted_node_failed", 0) + 1
                        continue
                    V.append(viol("C20.independent", "%s %d of %d failed although it was not faulted: %s %s (schedule %s)" % (
                        "importer" if phase == 1 else "updater", i, len(nodes), r.get("exc"), r.get("msg"), _s(sched)),
                        kind="import_failed" if phase == 1 else "update_failed", exc=r.get("exc")))
                    continue
                try:
                    got = logical(raw_dump(w.p(_db(i))))
                except Exception as e:
                    V.append(viol("C20.independent", "output %d unreadable: %r" % (i, e), kind="output_unreadable"))
                    continue
                want = sol[i][dump_key]
                if core.file_format(w.p(_db(i))) != sol[i]["format"]:
                    V.append(viol("C20.independent", "output %d is a %s database, the solitary run's is a %s one (same call, same arguments)" % (
                        i, core.file_format(w.p(_db(i))), sol[i]["format"]), kind="journal_mode_differs"))
                if got != want:
                    what = [t for t in got if got[t] != want.get(t)]
                    V.append(viol("C20.independent", "output %d differs from the solitary run in tables %s after the %s phase (schedule %s)" % (
                        i, what, "import" if phase == 1 else "update", _s(sched)), kind="output_differs" if phase == 1 else "update_output_differs",
                        tables=",".join(what)))

        check_outputs(result, range(len(nodes)), "dump", 1)
        # ---- phase 2: finished importers update their own databases, concurrently again
        ok1 = [i for i in range(len(nodes)) if result[i] is not None and result[i]["ok"] and not result[i].get("fired")]
        upd_nodes = [i for i in ok1 if updates[i] is not None]
        result2 = [None] * len(nodes)
        if upd_nodes and not V:
            ph2 = lockstep(w, ns, lambda i: _upd_req(case, i) if i in upd_nodes else None, rng, case["policy"], None, journal, ())
            for i, st in ph2["unexpected_deaths"]:
                V.append(viol("C20.independent", "updater %d died unexpectedly (status %r)" % (i, st), kind="node_died"))
            result2 = ph2["result"]
            sched += [9] + list(ph2["sched"]) if False else list(ph2["sched"])
            overlap = overlap or ph2["overlap"]
            for i in range(len(nodes)):
                created[i] |= ph2["created"][i]
                state[i] = "dead" if ph2["state"][i] == "dead" else state[i]
            if ph2["overlap"]:
                probes["update_temp_lifetimes_overlapped"] = 1
            check_outputs(result2, upd_nodes, "dump2", 2)
        # the imports have returned; worker processes of a pool end without running exit hooks, so what matters is what
        # is left once create_db()/update() are done (one scheduled gc), not what interpreter shutdown would clean up
        for i, n in enumerate(ns):
            if state[i] == "done":
                try:
                    n.call({"op": "gc"})
                except Exception:
                    pass
        left_before_exit = w.tmp_files()
        # orderly exit of finished nodes (normal interpreter exit)
        for i, n in enumerate(ns):
            if state[i] == "done":
                n.close()
        if overlap:
            probes["temp_lifetimes_overlapped"] = 1
        if any(r and r["kinds"].get("fs.tmpname", 0) > (2 if nodes[i]["form"] == "string" else 1) for i, r in enumerate(result)):
            probes["temp_name_retry"] = 1
        # ---- oracle 2: no temp file of a finished importer remains
        left = w.tmp_files()
        excused = set()
        for i in range(len(nodes)):
            bad_run = any(r is not None and (not r["ok"] or r.get("fired")) for r in (result[i], result2[i]))
            if bad_run and fault and fault["mode"] == "callback" and i == faulty and state[i] != "dead":
                probes["importer_failed_in_user_callback"] = 1
                continue  # its temp files are judged like anybody's
            if state[i] == "dead" or bad_run:
                excused |= created[i]
                if pending[i]:
                    excused.add(pending[i])
        bad = [f for f in left if not any(x in f for x in excused)]
        bad_before = [f for f in left_before_exit if not any(x in f for x in excused)]
        if bad_before and not bad:
            V.append(viol("C20.tempfiles", "after the imports returned (and a gc) the temp dir still holds %r; the files only go away at "
                          "interpreter exit (schedule %s)" % (bad_before, _s(sched)), kind="leftover_until_exit"))
        if bad:
            V.append(viol("C20.tempfiles", "temp dir holds files of finished importers: %r (schedule %s)" % (bad, _s(sched)),
                          kind="leftover"))
        if left and not bad:
            probes["leftover_of_crashed_node_attributed"] = 1
        _merge(stats, w.stats)
        # ---- concurrent readers on one finished database
        fin = [i for i in range(len(nodes)) if result[i] is not None and result[i]["ok"]]
        if case.get("readers") and fin:
            _readers(case, w, fin[0], V, probes, journal, stats)
    out["stats"] = stats
    out["schedules"].add(core.digest(sched))
    out["trace_hash"] = core.digest([sched, journal])
    out["nontrivial"] = (len(nodes) >= 2 and overlap) or bool(probes.get("readers_interleaved"))
    out["sample"] = {"nodes": [dict(nd, fmt=case["inputs"][nd["input"]]["fmt"]) for nd in nodes], "policy": case["policy"],
                     "names": case["names"], "schedule": _s(sched), "fault": fault, "readers": case.get("readers"),
                     "updating_nodes": [i for i, u in enumerate(updates) if u is not None]}
    return out


def _readers(case, w, which, V, probes, journal, stats):
    import random

    db = _db(which)
    # solitary reader
    n0 = w.node()
    r = w.call(n0, {"op": "open", "h": "h", "db": db})
    ref = w.call(n0, {"op": "dump", "h": "h"}) if r["ok"] else r
    n0.close()
    if not ref["ok"]:
        V.append(viol("C20.readers", "solitary reader failed: %s %s" % (ref["exc"], ref["msg"]), kind="reader_failed"))
        return
    R = case["readers"]
    rng = random.Random(case["reader_seed"])
    rs = [w.node(lockstep_kinds=("sql", "sql.connect")) for _ in range(R)]
    phase = ["open"] * R  # open -> hold -> dump -> region -> done
    state = ["idle"] * R
    results = [None] * R
    regions = [None] * R
    sched = []
    while any(p != "done" for p in phase):
        el = [i for i in range(R) if phase[i] != "done"]
        i = rng.choice(el)
        sched.append(i)
        n = rs[i]
        try:
            if state[i] == "idle":
                if phase[i] == "open":
                    n.send({"op": "open", "h": "h", "db": db})
                elif phase[i] == "hold":
                    # a partly consumed iteration that stays alive (an open cursor, i.e. a read lock) for the rest of the session
                    n.send({"op": "read", "h": "h", "m": "all_features", "consume": 1})
                elif phase[i] == "dump":
                    n.send({"op": "dump", "h": "h"})
                else:
                    # a bin-restricted query (first one on this handle) while the other readers are in mid-iteration
                    n.send({"op": "read", "h": "h", "m": "region", "kw": {"region": ["chr1", 1, 100000], "completely_within": True}})
            else:
                n.send(("go",))
            m = n.recv()
        except NodeDied as e:
            V.append(viol("C20.readers", "reader %d died (status %r)" % (i, e.status), kind="reader_died"))
            phase[i] = "done"
            continue
        if m[0] == "park":
            state[i] = "parked"
            continue
        state[i] = "idle"
        r = m[1]
        if not r["ok"]:
            V.append(viol("C20.readers", "reader %d of %d failed during %s: %s %s" % (i, R, phase[i], r["exc"], r["msg"]),
                          kind="reader_failed", exc=r["exc"]))
            phase[i] = "done"
            continue
        if phase[i] == "open":
            phase[i] = "hold"
        elif phase[i] == "hold":
            phase[i] = "dump"
        elif phase[i] == "dump":
            results[i] = r["dump"]
            phase[i] = "region"
        else:
            regions[i] = r["out"]
            phase[i] = "done"
    for n in rs:
        n.close()
    for i, d in enumerate(results):
        if d is not None and d != ref["dump"]:
            V.append(viol("C20.readers", "reader %d observed different content than a solitary reader" % i, kind="reader_differs"))
    want_region = sorted(f["id"] for f in ref["dump"]["features"] if f["cols"][0] == "chr1" and isinstance(f["cols"][3], int)
                         and f["cols"][3] >= 1 and f["cols"][4] <= 100000)
    for i, rg in enumerate(regions):
        if rg is not None and sorted(rg) != want_region:
            V.append(viol("C20.readers", "reader %d: region query returned %r, the file holds %r" % (i, sorted(rg), want_region), kind="reader_region"))
    switches = sum(1 for a, b in zip(sched, sched[1:]) if a != b)
    if switches >= 2:
        probes["readers_interleaved"] = 1
    journal.append(("readers", _s(sched)))
    stats["nodes"] += R + 1




def _merge(a, b):
    for k in ("nodes", "crashes", "points", "ops"):
        a[k] = a.get(k, 0) + b.get(k, 0)
    for k in ("kinds", "fired"):
        for x, y in b.get(k, {}).items():
            a.setdefault(k, {})[x] = a[k].get(x, 0) + y
