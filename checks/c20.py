"""
C20 - concurrent imports are independent and leave no temp files; concurrent readers
see the full content.

K real forked processes each run create_db(input_i, out_i) against one shared temp
directory.  Every node parks at each file-system seam point (temp-name choice, open,
close, unlink) and the seeded scheduler releases exactly ONE parked node at a time, so
a run is one exactly repeatable interleaving.  Temp-name candidate sequences are
identical in all nodes (worst legal case of a random generator).  One node may crash
or hit a full temp dir mid-import.  Then R reader processes scan one finished database,
interleaved at every SQL statement.
"""
import os

from sim import core
from sim import gen as G
from sim.core import World, raw_dump, logical
from sim.node import NodeDied, HarnessError
from sim.runner import viol

ID = "C20"
LEVEL = "exploration"
RULE = ("seeded cases: 2-8 importer processes (GFF3/GTF inputs from a small pool, path or from_string form, identical temp-name "
        "sequences) released one file-system seam point at a time by a seeded scheduler (uniform / bursty / round-robin / "
        "pile-up / delayed-start policies), optional crash or temp-dir error in one node; then 2-6 reader processes "
        "interleaved per SQL statement. distinct = hash of (schedule string, per-node event logs); non-trivial = >=2 "
        "importers whose temp-file lifetimes overlapped in the schedule, or >=2 readers interleaved")
ASSUMPTIONS = [
    "only points that touch objects shared between processes (the temp directory; for readers the database file) are "
    "scheduling points: sqlite statements on private output files commute with everything another process does",
    "exactly one process runs at a time, so process counts below/above the core count need no separate treatment",
]
PARK = ("fs.tmpname", "fs.open", "fs.close", "fs.unlink")


def budget(tier):
    if tier == "quick":
        return {"runs": 1200, "wall": 50, "chunk": 8}
    return {"runs": 60000, "wall": 1500, "chunk": 8}


def gen_input(rng):
    if rng.random() < 0.5:
        cfg = {"p_id": 0.8, "p_parent": 0.7, "types": ["gene", "mRNA", "exon"], "seqids": ["chr1"], "pool": [1, 5, 10, 20, 30]}
        feats = G.gff3_batch(rng, rng.randint(2, 7), cfg, unique_ids=True)
        return {"fmt": "gff3", "feats": feats}
    feats = []
    while not feats:
        feats = G.gtf_annotation(rng, {"max_genes": 2, "shuffle": rng.random() < 0.3})
    return {"fmt": "gtf", "feats": feats}


def gen(rng, tier):
    n_inputs = rng.randint(1, 3)
    inputs = [gen_input(rng) for _ in range(n_inputs)]
    k = rng.choice([2, 2, 3, 3, 4, 5, 8])
    nodes = []
    for i in range(k):
        nodes.append({"input": rng.randrange(n_inputs), "form": rng.choice(["path", "path", "string"]),
                      "delay": rng.choice([0, 0, 0, 1, 3, 8])})
    fault = None
    r = rng.random()
    if r < 0.25:
        fault = {"node": rng.randrange(k), "mode": "crash", "frac": rng.random()}
    elif r < 0.4:
        fault = {"node": rng.randrange(k), "mode": "error", "kind": rng.choice(["fs.tmpname", "fs.write", "fs.unlink", "fs.open"]),
                 "nth": rng.choice([0, 0, 1])}
    return {"inputs": inputs, "nodes": nodes, "policy": rng.choice(["uniform", "bursty", "rr", "pileup", "uniform"]),
            "names": rng.choice(["identical", "identical", "repeat", "distinct"]),
            "sched_seed": rng.getrandbits(32), "fault": fault, "readers": rng.choice([0, 2, 3, 6]),
            "reader_seed": rng.getrandbits(32)}


def _text(inp):
    return G.render_text(inp["feats"], G.DEFAULT_GFF3 if inp["fmt"] == "gff3" else G.DEFAULT_GTF)


def _req(case, i, nd):
    inp = case["inputs"][nd["input"]]
    data = {"form": nd["form"], "text": _text(inp), "name": "in%d_%d.%s" % (nd["input"], i, inp["fmt"])}
    return {"op": "create", "h": "h", "db": "out%d.db" % i, "data": data, "kw": {"merge_strategy": "create_unique"}, "want_log": True}


def _names(case, i):
    if case["names"] == "identical":
        return None
    if case["names"] == "repeat":
        return ["r0", "r0", "r1", "r0", "r1", "r2", "r2"]
    return ["n%d_%d" % (i, j) for j in range(40)]


def solitary(case, i, nd, cache):
    inp = case["inputs"][nd["input"]]
    key = (nd["input"], nd["form"])
    if key in cache:
        return cache[key]
    with World("c20s_") as w:
        n = w.node(tmp_names=_names(case, i))
        r = w.call(n, _req(case, i, nd))
        n.close()
        left = w.tmp_files()
        res = {"ok": r["ok"], "exc": r.get("exc"), "msg": r.get("msg"), "points": r["points"],
               "dump": logical(raw_dump(w.p("out%d.db" % i))) if r["ok"] else None, "left": left,
               "stats": w.stats}
    cache[key] = res
    return res


def pick(rng, policy, eligible, last, step):
    if policy == "rr":
        later = [x for x in eligible if x > last]
        return later[0] if later else eligible[0]
    if policy == "bursty" and last in eligible and rng.random() < 0.8:
        return last
    return rng.choice(eligible)


def run(case):
    import random

    out = {"violations": [], "probes": {}, "stats": {}, "schedules": set()}
    probes = out["probes"]
    V = out["violations"]
    nodes = case["nodes"]
    if len(nodes) < 1:
        return out
    cache = {}
    sol = []
    stats = {"nodes": 0, "crashes": 0, "points": 0, "ops": 0, "kinds": {}, "fired": {}}
    for i, nd in enumerate(nodes):
        s = solitary(case, i, nd, cache)
        sol.append(s)
    for s in cache.values():
        _merge(stats, s["stats"])
        if not s["ok"]:
            V.append(viol("C20.solitary", "a solitary import fails: %s %s" % (s["exc"], s["msg"]), kind="solitary_failed"))
            out["stats"] = stats
            return out
        if s["left"]:
            V.append(viol("C20.tempfiles", "a solitary import leaves temp files behind: %r" % s["left"], kind="leftover_solitary"))
    fault = case.get("fault")
    rng = random.Random(case["sched_seed"])
    sched = []
    journal = []
    with World("c20_") as w:
        ns = []
        for i, nd in enumerate(nodes):
            ns.append(w.node(lockstep_kinds=PARK, tmp_names=_names(case, i)))
        state = ["unstarted"] * len(nodes)
        delay = [nd.get("delay", 0) for nd in nodes]
        result = [None] * len(nodes)
        created = [set() for _ in nodes]  # temp candidate names each node actually got
        pending_name = [None] * len(nodes)
        open_tmp = [0] * len(nodes)  # temp files currently alive per node (schedule overlap probe)
        overlap = False
        last = -1
        step = 0
        pile = case["policy"] == "pileup"
        while True:
            eligible = [i for i, s in enumerate(state) if s == "parked" or (s == "unstarted" and delay[i] <= step)]
            if not eligible:
                waiting = [i for i, s in enumerate(state) if s == "unstarted"]
                if not waiting:
                    break
                step = min(delay[i] for i in waiting)
                continue
            if pile:
                # hold every node at its temp-name point until all live nodes are there (or nothing else can move)
                not_at = [i for i in eligible if not (state[i] == "parked" and pending_name[i] is not None)]
                cand = not_at if not_at else eligible
            else:
                cand = eligible
            i = pick(rng, case["policy"], cand, last, step)
            last = i
            sched.append(i)
            step += 1
            n = ns[i]
            try:
                if state[i] == "unstarted":
                    req = _req(case, i, nodes[i])
                    if fault and fault["node"] == i:
                        if "frac" in fault:
                            req["faults"] = [{"at": int(fault["frac"] * sol[i]["points"]), "mode": fault["mode"]}]
                        else:
                            req["faults"] = [{"kind": fault["kind"], "nth": fault.get("nth", 0), "mode": fault["mode"]}]
                    n.send(req)
                else:
                    n.send(("go",))
                while True:
                    m = n.recv()
                    if m[0] == "crashing":
                        n.crash_note = m[1]
                        continue
                    break
            except NodeDied as e:
                state[i] = "dead"
                w.stats["crashes"] += 1
                w.stats["fired"]["crash"] = w.stats["fired"].get("crash", 0) + 1
                journal.append((i, "died", e.status))
                if not (fault and fault["node"] == i and fault["mode"] == "crash"):
                    V.append(viol("C20.independent", "importer %d died unexpectedly (status %r)" % (i, e.status), kind="node_died"))
                continue
            if m[0] == "park":
                state[i] = "parked"
                kind, detail = m[1], m[2]
                journal.append((i, kind, detail))
                if kind == "fs.tmpname":
                    pending_name[i] = detail
                else:
                    if pending_name[i] is not None:
                        created[i].add(pending_name[i])
                        pending_name[i] = None
                        open_tmp[i] += 1
                        if sum(1 for x in open_tmp if x > 0) >= 2:
                            overlap = True
                    if kind == "fs.unlink":
                        open_tmp[i] = max(0, open_tmp[i] - 1)
            elif m[0] == "done":
                state[i] = "done"
                result[i] = m[1]
                if pending_name[i] is not None:
                    created[i].add(pending_name[i])
                    pending_name[i] = None
                open_tmp[i] = 0
                r = m[1]
                w.stats["ops"] += 1
                w.stats["points"] += r.get("points", 0)
                for k, v in (r.get("kinds") or {}).items():
                    w.stats["kinds"][k] = w.stats["kinds"].get(k, 0) + v
                for f in r.get("fired") or []:
                    kk = f["mode"] + "@" + f["kind"]
                    w.stats["fired"][kk] = w.stats["fired"].get(kk, 0) + 1
                journal.append((i, "done", r["ok"], r.get("exc"), core.digest(r.get("log"))))
            else:
                raise HarnessError("unexpected frame %r" % (m[0],))
        # orderly exit of finished importers (normal interpreter exit)
        for i, n in enumerate(ns):
            if state[i] == "done":
                n.close()
        if overlap:
            probes["temp_lifetimes_overlapped"] = 1
        if any(r and r["kinds"].get("fs.tmpname", 0) > (2 if nodes[i]["form"] == "string" else 1) for i, r in enumerate(result)):
            probes["temp_name_retry"] = 1
        # ---- oracle 1: every finished importer produced exactly the solitary database
        faulty = fault["node"] if fault else None
        for i, nd in enumerate(nodes):
            r = result[i]
            if r is None:
                continue
            if not r["ok"]:
                if i == faulty and r.get("injected"):
                    probes["faulted_node_failed"] = probes.get("faulted_node_failed", 0) + 1
                    continue
                V.append(viol("C20.independent", "importer %d of %d failed although it was not faulted: %s %s (schedule %s)" % (
                    i, len(nodes), r.get("exc"), r.get("msg"), _s(sched)), kind="import_failed", exc=r.get("exc")))
                continue
            try:
                got = logical(raw_dump(w.p("out%d.db" % i)))
            except Exception as e:
                V.append(viol("C20.independent", "output %d unreadable: %r" % (i, e), kind="output_unreadable"))
                continue
            if got != sol[i]["dump"]:
                what = [t for t in got if got[t] != sol[i]["dump"].get(t)]
                V.append(viol("C20.independent", "output %d differs from the solitary run in tables %s (schedule %s)" % (
                    i, what, _s(sched)), kind="output_differs", tables=",".join(what)))
        # ---- oracle 2: no temp file of a finished importer remains
        left = w.tmp_files()
        excused = set()
        for i in range(len(nodes)):
            if state[i] == "dead" or (result[i] is not None and (not result[i]["ok"] or result[i].get("fired"))):
                excused |= created[i]
                if pending_name[i]:
                    excused.add(pending_name[i])
        bad = [f for f in left if not any(x in f for x in excused)]
        if bad:
            V.append(viol("C20.tempfiles", "temp dir holds files of finished importers: %r (schedule %s)" % (bad, _s(sched)),
                          kind="leftover"))
        if left and not bad:
            probes["leftover_of_crashed_node_attributed"] = 1
        _merge(stats, w.stats)
        # ---- concurrent readers on one finished database
        fin = [i for i in range(len(nodes)) if result[i] is not None and result[i]["ok"]]
        if case.get("readers") and fin:
            _readers(case, w, fin[0], V, probes, journal, stats)
    out["stats"] = stats
    out["schedules"].add(core.digest(sched))
    out["trace_hash"] = core.digest([sched, journal])
    out["nontrivial"] = (len(nodes) >= 2 and overlap) or bool(probes.get("readers_interleaved"))
    out["sample"] = {"nodes": [dict(nd, fmt=case["inputs"][nd["input"]]["fmt"]) for nd in nodes], "policy": case["policy"],
                     "names": case["names"], "schedule": _s(sched), "fault": fault, "readers": case.get("readers")}
    return out


def _readers(case, w, which, V, probes, journal, stats):
    import random

    db = "out%d.db" % which
    # solitary reader
    n0 = w.node()
    r = w.call(n0, {"op": "open", "h": "h", "db": db})
    ref = w.call(n0, {"op": "dump", "h": "h"}) if r["ok"] else r
    n0.close()
    if not ref["ok"]:
        V.append(viol("C20.readers", "solitary reader failed: %s %s" % (ref["exc"], ref["msg"]), kind="reader_failed"))
        return
    R = case["readers"]
    rng = random.Random(case["reader_seed"])
    rs = [w.node(lockstep_kinds=("sql", "sql.connect")) for _ in range(R)]
    phase = ["open"] * R  # open -> dump -> done
    state = ["idle"] * R
    results = [None] * R
    sched = []
    while any(p != "done" for p in phase):
        el = [i for i in range(R) if phase[i] != "done"]
        i = rng.choice(el)
        sched.append(i)
        n = rs[i]
        try:
            if state[i] == "idle":
                n.send({"op": "open", "h": "h", "db": db} if phase[i] == "open" else {"op": "dump", "h": "h"})
            else:
                n.send(("go",))
            m = n.recv()
        except NodeDied as e:
            V.append(viol("C20.readers", "reader %d died (status %r)" % (i, e.status), kind="reader_died"))
            phase[i] = "done"
            continue
        if m[0] == "park":
            state[i] = "parked"
            continue
        state[i] = "idle"
        r = m[1]
        if not r["ok"]:
            V.append(viol("C20.readers", "reader %d of %d failed during %s: %s %s" % (i, R, phase[i], r["exc"], r["msg"]),
                          kind="reader_failed", exc=r["exc"]))
            phase[i] = "done"
            continue
        if phase[i] == "open":
            phase[i] = "dump"
        else:
            results[i] = r["dump"]
            phase[i] = "done"
    for n in rs:
        n.close()
    for i, d in enumerate(results):
        if d is not None and d != ref["dump"]:
            V.append(viol("C20.readers", "reader %d observed different content than a solitary reader" % i, kind="reader_differs"))
    switches = sum(1 for a, b in zip(sched, sched[1:]) if a != b)
    if switches >= 2:
        probes["readers_interleaved"] = 1
    journal.append(("readers", _s(sched)))
    stats["nodes"] += R + 1


def _s(sched):
    return "".join(str(x) if x < 10 else "(%d)" % x for x in sched)


def _merge(a, b):
    for k in ("nodes", "crashes", "points", "ops"):
        a[k] = a.get(k, 0) + b.get(k, 0)
    for k in ("kinds", "fired"):
        for x, y in b.get(k, {}).items():
            a.setdefault(k, {})[x] = a[k].get(x, 0) + y
