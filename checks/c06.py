"""
C06 - region and limit queries return exactly the overlapping / contained features.

features.bin is a persisted index that every write path must keep consistent with
start/end.  The simulation reaches database states through import (with coordinate-
shifting transforms), update with replace / merge+force_merge_fields, add_relation with a
child_func that moves a feature across a bin edge, and merge_all; with reopen / restart
between steps.  After every write op: (1) index invariant by raw SQL from an outside
connection - each row's bin equals independent UCSC arithmetic; (2) region()/limit=
results equal a full scan of the same database, for query ends on and around the
128kb*8^k bin boundaries and 2**29.
"""
import random

from sim import core
from sim import gen as G
from sim.core import World, raw_dump
from sim.model import mf, ucsc_bin
from sim.runner import viol

ID = "C06"
LEVEL = "exploration"
RULE = ("seeded histories create -> {update(replace|merge|create_unique), add_relation(child_func moving a feature), merge_all, "
        "reopen, restart}; coordinates drawn from {small values, every 128kb*8^k boundary +-1, 2**29 +-1, beyond 2**29}; after each "
        "write op the bin column is checked by raw SQL and 12-20 region()/limit= queries (tuple/string/Feature forms, one-sided, "
        "seqid omitted, completely_within, strand/featuretype) are compared with a full scan. distinct = journal hash; non-trivial = "
        ">= 1 query whose expected answer is non-empty and a feature or query end within 1 of a bin boundary")
ASSUMPTIONS = ["one-sided non-within queries are judged with the statement's two-sided bound: nothing outside the half-line, everything "
               "strictly beyond the bound", "features always have integer start <= end"]

EDGES = [1 << 17, 1 << 20, 1 << 23, 1 << 26, 1 << 29]


def budget(tier):
    if tier == "quick":
        return {"runs": 2400, "wall": 120, "chunk": 6}
    return {"runs": 60000, "wall": 1500, "chunk": 8}


def pool(rng):
    p = [1, 2, 10, 50, 100, 1000]
    for e in EDGES:
        p += [e - 1, e, e + 1]
    p += [2 * (1 << 17), 2 * (1 << 17) + 1, 3 * (1 << 17) - 1, 8 * (1 << 17), 9 * (1 << 20), (1 << 29) + 1000, (1 << 30)]
    return p


def feat(rng, p, ident=None):
    s, e = G.rand_span(rng, p)
    if rng.random() < 0.5:
        e = min(e, s + rng.choice([0, 1, 5, 1 << 17]))  # many short features near one edge
    if s > 1 and rng.random() < 0.08:
        e = s - 1  # a zero-length feature (insertion site between two bases), written start = end + 1
    elif e > s and rng.random() < 0.04:
        s, e = e, s  # reversed coordinates: not legal GFF, but stored and queried by the same two comparisons
    attrs = [["ID", [ident]]] if ident else [["note", ["k"]]]
    if rng.random() < 0.4:
        attrs.append(["Parent", [rng.choice(["a", "b"])]])
    return mf([rng.choice(["chr1", "chr1", "chr2"]), "src", rng.choice(["gene", "exon"]), s, e, ".", rng.choice(["+", "-", "."]), "."], attrs)


def gen_query(rng, p):
    s, e = G.rand_span(rng, p)
    kind = rng.choice(["region", "region", "region", "limit_all", "limit_type", "limit_children", "limit_parents"])
    q = {"kind": kind, "seqid": rng.choice(["chr1", "chr1", "chr2"]), "start": s, "end": e,
         "within": rng.random() < 0.5}
    if kind == "region":
        q["form"] = rng.choice(["tuple", "string", "feature", "kwargs", "start_only", "end_only", "noseqid"])
        if rng.random() < 0.3:
            q["strand"] = rng.choice(["+", "-", "."])
        if rng.random() < 0.3:
            q["featuretype"] = rng.choice(["gene", "exon", ["gene", "exon"]])
    else:
        q["form"] = rng.choice(["tuple", "string"])
        if kind == "limit_all" and rng.random() < 0.3:
            q["strand"] = rng.choice(["+", "-"])
        if kind in ("limit_children", "limit_parents"):
            q["id"] = rng.choice(["a", "b", "c", "d"])
        if kind == "limit_type":
            q["featuretype"] = rng.choice(["gene", "exon"])
    return q


def gen(rng, tier):
    p = pool(rng)
    ids = ["a", "b", "c", "d", "e", "f"]
    n0 = rng.randint(2, 8)
    base = [feat(rng, p, ids[i] if i < len(ids) and rng.random() < 0.8 else None) for i in range(n0)]
    tr = None
    if rng.random() < 0.25:
        tr = {"kind": "shift", "by": rng.choice([1, 2, (1 << 17) - 1, 1 << 17])}
    steps = [{"op": "create", "feats": base, "transform": tr, "form": rng.choice(["path", "list", "gen"])}]
    for _ in range(rng.choice([0, 1, 1, 2, 3])):
        k = rng.choice(["update", "update", "move", "merge_all", "reopen", "restart"])
        if k == "update":
            strat = rng.choice(["replace", "merge", "create_unique"])
            fs = [feat(rng, p, rng.choice(ids)) for _ in range(rng.randint(1, 3))]
            steps.append({"op": "update", "feats": fs, "strategy": strat, "fmf": ["strand"] if strat == "merge" and rng.random() < 0.5 else [],
                          "form": rng.choice(["list", "gen", "path"])})
        elif k == "move":
            steps.append({"op": "move", "parent": rng.choice(ids[:4]), "child": rng.choice(ids[:4]), "by": rng.choice([1, 2, 1 << 17, (1 << 17) - 1, 1 << 20])})
        elif k == "merge_all":
            steps.append({"op": "merge_all", "exclude": rng.random() < 0.4})
        else:
            steps.append({"op": k})
    memory = rng.random() < 0.15
    for st in steps:
        if st["op"] == "update" and rng.random() < 0.25 and len(st["feats"]) >= 2:
            st["fail_at"] = rng.randint(1, len(st["feats"]))  # source failure after the dialect peek (checklines=0)
            st["form"] = "gen"
    if memory:
        steps = [st for st in steps if st["op"] not in ("reopen", "restart")]
    else:
        for st in steps:
            if st["op"] == "update" and rng.random() < 0.25:
                st["via"] = "other_process"
    return {"steps": steps, "queries": [gen_query(rng, p) for _ in range(rng.randint(12, 20))], "qseed": rng.getrandbits(32),
            "memory": memory}


def near_edge(x):
    m = x % (1 << 17)
    return m in (0, 1, (1 << 17) - 1)


def expected(q, feats):
    """Returns (must, may): ids that must be returned, ids that may additionally be returned."""
    s, e, sid = q["start"], q["end"], q["seqid"]
    form = q.get("form")
    must, may = [], []
    for f in feats:
        c = f["cols"]
        fs, fe = c[3], c[4]
        if fs is None or fe is None:
            continue
        if form != "noseqid" and c[0] != sid:
            continue
        if q.get("strand") and c[6] != q["strand"]:
            continue
        ft = q.get("featuretype")
        if ft and c[2] not in ([ft] if isinstance(ft, str) else ft):
            continue
        if form == "start_only":
            if q["within"]:
                ok, opt = fs >= s, False
            else:
                ok, opt = fe > s, fe == s
        elif form == "end_only":
            if q["within"]:
                ok, opt = fe <= e, False
            else:
                ok, opt = fs < e, fs == e
        elif q["within"]:
            ok, opt = (s <= fs and fe <= e), False
        else:
            ok, opt = (fs <= e and fe >= s), False
        if ok:
            must.append(f["id"])
        elif opt:
            may.append(f["id"])
    return must, may


def request(q):
    s, e, sid = q["start"], q["end"], q["seqid"]
    kw = {"completely_within": q["within"]}
    if q["kind"] == "region":
        form = q["form"]
        op = {"op": "read", "h": "h", "m": "region", "kw": kw}
        if form == "tuple":
            kw["region"] = [sid, s, e]
        elif form == "string":
            kw["region"] = "%s:%d-%d" % (sid, s, e)
        elif form == "feature":
            op["region_feature"] = [sid, s, e, "."]
        elif form == "kwargs":
            kw.update({"seqid": sid, "start": s, "end": e})
        elif form == "start_only":
            kw.update({"seqid": sid, "start": s})
        elif form == "end_only":
            kw.update({"seqid": sid, "end": e})
        elif form == "noseqid":
            kw.update({"start": s, "end": e})
        if q.get("strand"):
            kw["strand"] = q["strand"]
        if q.get("featuretype"):
            kw["featuretype"] = q["featuretype"]
        return op
    kw["limit"] = [sid, s, e] if q["form"] == "tuple" else "%s:%d-%d" % (sid, s, e)
    if q["kind"] == "limit_all":
        if q.get("strand"):
            kw["strand"] = q["strand"]
        return {"op": "read", "h": "h", "m": "all_features", "kw": kw}
    if q["kind"] == "limit_type":
        return {"op": "read", "h": "h", "m": "features_of_type", "args": [q["featuretype"]], "kw": kw}
    m = "children" if q["kind"] == "limit_children" else "parents"
    return {"op": "read", "h": "h", "m": m, "args": [q["id"]], "kw": kw}


def run(case):
    out = {"violations": [], "probes": {}, "stats": {}, "digests": set()}
    V = out["violations"]
    probes = out["probes"]
    journal = []
    nontrivial = False
    qrng = random.Random(case["qseed"])
    with World("c06_") as w:
        def call(n, op):
            r = w.call(n, op)
            journal.append((op["op"], op.get("m"), core.digest({k: v for k, v in r.items() if k != "kinds"})))
            return r

        def after_write(where):
            """index invariant + queries"""
            nonlocal nontrivial
            raw = raw_dump(w.p("a.db"), tables=("features",))["features"] if not case.get("memory") else []
            for row in raw:
                rid, fid, start, end, b = row[1], row[1], row[5], row[6], row[12]
                if isinstance(start, int) and isinstance(end, int) and b != ucsc_bin(start, end):
                    V.append(viol("C06.index", "%s: feature %r (%s-%s) is stored with bin %r, the scheme says %r" % (
                        where, fid, start, end, b, ucsc_bin(start, end)), kind="bin_mismatch", where=where.split(" #")[0]))
                    return False
            d = call(node, {"op": "dump", "h": "h"})
            if not d["ok"]:
                V.append(viol("C06.read", "%s: dump failed %s %s" % (where, d["exc"], d["msg"]), kind="read_failed"))
                return False
            feats = d["dump"]["features"]
            rel = d["dump"]["rel"]
            for f in feats:
                if isinstance(f["cols"][3], int) and isinstance(f["cols"][4], int) and f["bin"] != ucsc_bin(f["cols"][3], f["cols"][4]):
                    V.append(viol("C06.index", "%s: feature %r (%s-%s) comes back with bin %r, the scheme says %r" % (
                        where, f["id"], f["cols"][3], f["cols"][4], f["bin"], ucsc_bin(f["cols"][3], f["cols"][4])), kind="bin_mismatch_api"))
                    return False
            out["digests"].add(core.digest([(f["id"], f["cols"][3], f["cols"][4]) for f in feats]))
            qs = case["queries"]
            for q in qrng.sample(qs, min(len(qs), 8)):
                if q["kind"] in ("limit_children", "limit_parents") and q["id"] not in rel:
                    continue  # relatives of an id that is not stored: outside this property
                r = call(node, request(q))
                if not r["ok"]:
                    V.append(viol("C06.query", "%s: query %r raised %s: %s" % (where, q, r["exc"], r["msg"]), kind="query_failed",
                                  qkind=q["kind"], exc=r["exc"]))
                    return False
                got = r["out"]
                pool_ = feats
                if q["kind"] in ("limit_children", "limit_parents"):
                    rr = rel.get(q["id"])
                    if rr is None:
                        rel_ids = set()
                    else:
                        rel_ids = set(rr["c1"] + rr["c2"]) if q["kind"] == "limit_children" else set(rr["p1"] + rr["p2"])
                    pool_ = [f for f in feats if f["id"] in rel_ids]
                must, may = expected(q, pool_)
                if len(got) != len(set(got)):
                    V.append(viol("C06.query", "%s: %r returned a feature twice: %r" % (where, q, got), kind="duplicate", qkind=q["kind"]))
                    return False
                lost = sorted(set(must) - set(got))
                inv = sorted(set(got) - set(must) - set(may))
                if lost or inv:
                    big = q["end"] >= (1 << 29) or q["start"] >= (1 << 29)
                    V.append(viol("C06.query", "%s: %s form=%s (%s:%d-%d, completely_within=%s, strand=%s, featuretype=%s): dropped %r, "
                                  "wrongly returned %r" % (where, q["kind"], q.get("form"), q["seqid"], q["start"], q["end"], q["within"],
                                                           q.get("strand"), q.get("featuretype"), lost, inv),
                                  kind="dropped" if lost and not inv else ("extra" if inv and not lost else "both"),
                                  qkind=q["kind"] if q["kind"] == "region" else "limit", form=q.get("form"), within=q["within"],
                                  beyond_2_29=big))
                    return False
                if must and (near_edge(q["start"]) or near_edge(q["end"]) or any(near_edge(f["cols"][3]) or near_edge(f["cols"][4]) for f in pool_)):
                    nontrivial = True
                if q["end"] >= (1 << 29) and must:
                    probes["query_at_or_beyond_2_29_with_hits"] = 1
            # several region()/limit= generators alive on the one handle, advanced alternately
            rq = [q for q in qs if q["kind"] in ("region", "limit_all", "limit_type")]
            if len(rq) >= 2:
                sel = qrng.sample(rq, qrng.choice([2, 2, 3]) if len(rq) >= 3 else 2)
                if qrng.random() < 0.5:
                    sel = sel + [dict(sel[0])]
                reqs = []
                for q in sel:
                    o = request(q)
                    rr = {"m": o["m"], "args": o.get("args") or [], "kw": o["kw"]}
                    if o.get("region_feature"):
                        rr = None
                    reqs.append(rr)
                if all(x is not None for x in reqs):
                    alone = []
                    for x in reqs:
                        r = call(node, dict(x, op="read", h="h"))
                        alone.append(r["out"] if r["ok"] else None)
                    if all(a is not None for a in alone):
                        sched = [qrng.randrange(len(reqs)) for _ in range(qrng.randint(2, 20))]
                        r = call(node, {"op": "interleave", "h": "h", "queries": reqs, "schedule": sched})
                        if not r["ok"]:
                            V.append(viol("C06.interleaved", "%s: interleaved region/limit iterations raised %s: %s" % (where, r["exc"], r["msg"]),
                                          kind="interleave_failed"))
                            return False
                        for x, a, b in zip(reqs, alone, r["outs"]):
                            if sorted(a) != sorted(b):
                                V.append(viol("C06.interleaved", "%s: %s(%r) yields %r while another query is being iterated on the handle, %r alone" % (
                                    where, x["m"], x["kw"], b, a), kind="interleaved_differs", m=x["m"]))
                                return False
                        if any(len(a) > 1 for a in alone):
                            probes["region_generators_interleaved"] = 1
            return True

        node = w.node()
        alive = False
        DBN = ":memory:" if case.get("memory") else "a.db"
        stale = [False]

        def reopen_if_stale():
            if stale[0]:
                call(node, {"op": "drop", "h": "h"})
                call(node, {"op": "gc"})
                call(node, {"op": "open", "h": "h", "db": "a.db"})
                stale[0] = False

        for si, st in enumerate(case["steps"]):
            k = st["op"]
            if k == "reopen" and alive:
                call(node, {"op": "drop", "h": "h"})
                call(node, {"op": "gc"})
                call(node, {"op": "open", "h": "h", "db": "a.db"})
                continue
            if k == "restart" and alive:
                node.close()
                node = w.node()
                call(node, {"op": "open", "h": "h", "db": "a.db"})
                if not after_write("after restart"):
                    break
                continue
            if k == "create":
                r = call(node, {"op": "create", "h": "h", "db": DBN, "data": G.source_spec(None, st["feats"], form=st["form"]),
                                "transform": st.get("transform"), "kw": {"merge_strategy": "create_unique"}})
                if case.get("memory"):
                    probes["memory_database"] = 1
            elif k == "update" and alive:
                kw = {"merge_strategy": st["strategy"], "make_backup": False}
                if st.get("fmf"):
                    kw["force_merge_fields"] = st["fmf"]
                ureq = {"op": "update", "h": "h", "data": G.source_spec(None, st["feats"], form=st["form"]), "kw": kw}
                if st.get("fail_at") is not None:
                    ureq["data"]["fail_at"] = st["fail_at"]
                    kw["checklines"] = 0
                if st.get("via") == "other_process":
                    # the write is made by another process; this handle stays open and answers the queries below
                    other = w.node()
                    call(other, {"op": "open", "h": "h", "db": "a.db"})
                    r = call(other, ureq)
                    other.close()
                    stale[0] = True
                    probes["write_by_other_process"] = 1
                else:
                    reopen_if_stale()
                    r = call(node, ureq)
            elif k == "move" and alive:
                reopen_if_stale()
                r = call(node, {"op": "add_relation", "h": "h", "parent": st["parent"], "child": st["child"], "level": 1,
                                "child_func": "move", "by": st["by"]})
                if r["ok"]:
                    probes["feature_moved_by_child_func"] = 1
            elif k == "merge_all" and alive:
                reopen_if_stale()
                r = call(node, {"op": "merge_all", "h": "h", "kw": {"exclude_components": st["exclude"]}})
                if r["ok"] and r["out"]:
                    probes["merge_all_stored_features"] = 1
            else:
                continue
            if not r["ok"]:
                if k == "create":
                    out["discarded"] = True
                    break
                call(node, {"op": "gc"})
                if r.get("injected") and alive:
                    # whatever a failed update left visible through this handle (on a :memory: database: the rows
                    # imported so far), region/limit queries and a scan of the same handle must still agree
                    probes["queries_after_failed_update"] = 1
                    if not after_write("after failed %s #%d" % (k, si)):
                        break
                continue  # rejected ops (absent ids, duplicate relation...) are not this property's business
            alive = True
            if not after_write("after %s #%d" % (k, si)):
                break
        out["stats"] = w.stats
    out["trace_hash"] = core.digest(journal)
    out["nontrivial"] = nontrivial
    out["sample"] = {"steps": [dict((k, v) for k, v in s.items() if k != "feats") for s in case["steps"]],
                     "first_lines": G.lines_of(case["steps"][0]["feats"])[:5], "queries": case["queries"][:5]}
    return out
