#!/bin/bash
# thorough sweep of every check (background use: vp run -- bash checks/sweep.sh [wall seconds per check]; SWEEP_CHECKS="C10 C13" restricts it)
W=${1:-600}
cd "$(dirname "$0")/.."
for c in ${SWEEP_CHECKS:-C10 C20 C19 C13 C14 C01 C02 C03 C04 C05 C06 C11 C16}; do
  VERIF_WALL=$W VERIF_EVIDENCE_DIR=$PWD/sweep_evidence VERIF_REPLAY_DIR=$PWD/sweep_replays timeout $((W+600)) /venv/bin/python checks/run.py $c --tier thorough 2>&1 | grep -E "^(violation|VIOLATION|KNOWN|HARNESS|C[0-9]+ )" | cut -c1-700
done
