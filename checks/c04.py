"""
C04 - primary keys follow id_spec, are unique, and look-ups are exact.

The id counters are a state machine living in three places (the importer object, the
FeatureDB handle, the autoincrements table).  The simulation imports under a swarm of
id_spec forms, then applies updates with reopen / restart / gc between them, and checks
every key (in input order), every look-up, the FeatureNotFoundError for absent keys, the
rejection of multi-valued id attributes, and that numbering continues in every vantage.
"""
import random

from sim import core
from sim import gen as G
from sim.core import World
from sim.model import Model, ModelError, Undefined, diff_feature, mf, AUTO_RE
from sim.node import NodeDied
from sim.runner import viol

ID = "C04"
LEVEL = "exploration"
RULE = ("seeded GFF3/GTF feature batches (features with, without, with empty and with multi-valued id attributes) x id_spec in "
        "{default, string, list with fall-through, dict of string/list, callables returning None / string / 'autoincrement:X' / '', "
        "':seqid:' / ':source:' / ':featuretype:' forms, mixed lists} imported then extended by 0-3 updates with "
        "reopen/restart/gc in between; distinct = journal hash; non-trivial = >= 1 auto-generated and >= 1 attribute-derived key")
ASSUMPTIONS = ["colliding keys are resolved with merge_strategy='create_unique' (collision semantics are C05)",
               "explicit ids of the form <base>_<n> are not generated"]

SPECS = [None, "ID", "Name", ["ID", "Name"], ["Name", "ID"], {"gene": "ID", "exon": ["Name", "ID"]}, {"mRNA": ["ID"], "CDS": "Name"},
         {"callable": "none"}, {"callable": "auto_seqid"}, {"callable": "auto_const", "base": "k"}, {"callable": "auto_colon"}, {"callable": "auto_const", "base": "x:y:z"}, {"callable": "name_or_none"},
         {"callable": "name_or_auto", "base": "z"}, {"callable": "empty"}, ":seqid:", ":source:", ":featuretype:", [":seqid:"],
         [{"callable": "name_or_none"}, "ID"], [{"callable": "none"}, "Name", "ID"], {"gene": ":seqid:", "exon": "ID"}]


def budget(tier):
    if tier == "quick":
        return {"runs": 2400, "wall": 120, "chunk": 8}
    return {"runs": 100000, "wall": 1500, "chunk": 8}


def batch(rng, n, multi_ok):
    out = []
    for _ in range(n):
        f = G.gff3_feature(rng, {"p_id": 0.6, "p_parent": 0.2, "p_name": 0.6, "seqids": ["chr1", "chr2"], "sources": ["src", "alt"],
                                 "pool": [1, 5, 10, 20, 30], "ids": ["a", "b", "c", "d", "e", "f", "g", "h", "g\u00e9ne", "\u00fcb", "a+b", "a b", "tRNA-Ala(+)1"]})
        r = rng.random()
        if r < 0.08:
            # valueless id attribute
            for kv in f["attrs"]:
                if kv[0] in ("ID", "Name"):
                    kv[1] = []
                    break
            # a valueless flag in first position would make the line look like GFF2 to the dialect
            # inference (outside this property): keep a valued attribute first
            f["attrs"].sort(key=lambda kv: 0 if kv[1] else 1)
            if not f["attrs"][0][1]:
                f["attrs"].insert(0, ["note", ["k"]])
        elif r < 0.14 and multi_ok:
            for kv in f["attrs"]:
                if kv[0] == "ID":
                    kv[1] = [kv[1][0], rng.choice(["q", kv[1][0]])]  # several values, possibly all equal
        out.append(f)
    return out


def gen(rng, tier):
    if rng.random() < 0.004:
        # the id counters across a long update that fails late, a reopen and a further update (history engine of C10)
        from checks import c10
        return {"c10case": c10.gen_long_src_case(rng), "fmt": "gff3", "id_spec": None, "steps": []}
    fmt = "gff3" if rng.random() < 0.85 else "gtf"
    spec = rng.choice(SPECS) if fmt == "gff3" else rng.choice([None, None, {"gene": "gene_id", "transcript": "transcript_id", "exon": "exon_number"}])
    multi = rng.random() < 0.25
    if fmt == "gff3":
        steps = [{"op": "create", "feats": batch(rng, rng.randint(1, 8), multi), "form": rng.choice(["path", "list", "gen", "string", "gz"])}]
        for _ in range(rng.choice([0, 1, 1, 2, 3])):
            steps.append({"op": rng.choice(["reopen", "restart", "gc", "none"])})
            steps.append({"op": "update", "feats": batch(rng, rng.randint(1, 4), multi), "form": rng.choice(["path", "list", "gen", "iter1"])})
            if rng.random() < 0.4:
                steps.append({"op": "delete", "pick": rng.random(), "form": rng.choice(["str", "feature", "features", "strs", "gen"])})
            if rng.random() < 0.25:
                steps.append({"op": "foreign", "pick": rng.random(), "what": rng.choice(["delete", "replace"])})
            if rng.random() < 0.2:
                steps.append({"op": "replace_while_reading", "n": rng.choice([3, 13, 20])})
            if rng.random() < 0.25:
                # ids drawn from the handle's counters by merge(), stored by update(), must stay reserved in later sessions
                steps.append({"op": "merge_update", "ftype": rng.choice(["exon", "gene", "mRNA", "CDS"])})
                steps.append({"op": rng.choice(["restart", "reopen"])})
                steps.append({"op": "update", "feats": batch(rng, rng.randint(2, 4), False), "form": rng.choice(["list", "gen"])})
    else:
        feats = []
        while not feats:
            feats = G.gtf_annotation(rng, {"max_genes": 2, "explicit_tx": rng.random() < 0.5, "explicit_gene": rng.random() < 0.5})
        steps = [{"op": "create", "feats": feats, "form": "path"}]
    steps.append({"op": rng.choice(["reopen", "restart", "none"])})
    memory = fmt == "gff3" and rng.random() < 0.15
    if memory:
        steps = [st for st in steps if st["op"] not in ("reopen", "restart", "foreign")]
    return {"fmt": fmt, "id_spec": spec, "steps": steps, "qseed": rng.getrandbits(32), "memory": memory, "pct_nonascii": rng.random() < 0.5,
            "fault_profile": rng.random() < (0.1 if not memory else 0.5), "fault_seed": rng.getrandbits(32),
            # the file is not UTF-8 (Latin-1 bytes): refusing it is fine, storing other characters than the file's is not
            "latin1": rng.random() < 0.2,
            # the relation keys of the GTF importer are not its id keys
            "gtf_other_keys": fmt == "gtf" and rng.random() < 0.4}


def run(case):
    if case.get("c10case"):
        from checks import c10
        o = c10.run(case["c10case"])
        for v in o["violations"]:
            v["sig"] = dict(v["sig"], clause="C04.long/" + v["sig"]["clause"])
            v["clause"] = v["sig"]["clause"]
            v.pop("case", None)
        o["sample"] = "long update failing after > 1000 items, reopen, update (C10 history engine)"
        return o
    out = {"violations": [], "probes": {}, "stats": {}, "digests": set()}
    V = out["violations"]
    probes = out["probes"]
    journal = []
    fmt = case["fmt"]
    model = Model(fmt)
    model.gtf["dig"] = model.gtf["dit"] = True
    spec = case["id_spec"]
    d_ = G.DEFAULT_GFF3 if fmt == "gff3" else G.DEFAULT_GTF
    qrng = random.Random(case["qseed"])
    auto_seen = attr_seen = False
    multi_rejected = False
    with World("c04_") as w:
        def call(n, op):
            r = w.call(n, op)
            journal.append((op["op"], core.digest({k: v for k, v in r.items() if k != "kinds"})))
            return r

        node = w.node()
        alive = False
        for si, st in enumerate(case["steps"]):
            if V:
                break
            k = st["op"]
            if k in ("none",):
                continue
            if k == "gc":
                call(node, {"op": "gc"})
                continue
            if k == "reopen" and alive:
                call(node, {"op": "drop", "h": "h"})
                call(node, {"op": "gc"})
                call(node, {"op": "open", "h": "h", "db": "a.db"})
                continue
            if k == "restart" and alive:
                node.close()
                node = w.node()
                call(node, {"op": "open", "h": "h", "db": "a.db"})
                continue
            if k == "delete" and alive and model.order:
                # look the key up, delete it (in the given argument form), look it up again
                key = model.order[int(st["pick"] * len(model.order)) % len(model.order)]
                g = call(node, {"op": "get", "h": "h", "key": key})
                if not g["ok"]:
                    V.append(viol("C04.lookup", "db[%r] raised %s before the delete" % (key, g["exc"]), kind="lookup_failed"))
                    break
                dl = call(node, {"op": "delete", "h": "h", "ids": [key], "form": st["form"], "kw": {"make_backup": False}})
                if not dl["ok"]:
                    V.append(viol("C04.lookup", "delete(%r as %s) raised %s: %s" % (key, st["form"], dl["exc"], dl["msg"]), kind="delete_failed"))
                    break
                model.delete([key])
                g = call(node, {"op": "get", "h": "h", "key": key})
                if g["ok"] or g["exc"] != "FeatureNotFoundError":
                    V.append(viol("C04.lookup", "db[%r] after delete(%s form) gave %s instead of FeatureNotFoundError" % (
                        key, st["form"], "the deleted feature" if g["ok"] else g["exc"]), kind="stale_lookup_after_delete", form=st["form"]))
                    break
                probes["lookup_delete_lookup"] = 1
                continue
            if k == "merge_update" and alive and spec in (None, "ID", ["ID", "Name"]):
                mu = call(node, {"op": "update_merged", "h": "h", "ftype": st["ftype"]})
                if not mu["ok"]:
                    V.append(viol("C04.keys", "update(list(merge(...))) raised %s: %s" % (mu["exc"], mu["msg"]), kind="merge_update_failed", exc=mu["exc"]))
                    break
                if mu["merged"]:
                    probes["merged_ids_stored_by_update"] = 1
                    dd = call(node, {"op": "dump", "h": "h", "relations": False})
                    for f in dd["dump"]["features"] if dd["ok"] else []:
                        if f["id"] not in model.feats:
                            # adopt what was stored; its key counts as handed out for its base
                            model.insert(f["id"], mf(f["cols"], f["attrs"], f["extra"]))
                            mm = AUTO_RE.match(f["id"])
                            if mm:
                                model.counters[mm.group(1)] = max(model.counters.get(mm.group(1), 0), int(mm.group(2)))
                continue
            if k == "replace_while_reading" and alive and model.order and spec in (None, "ID", ["ID", "Name"]):
                # update(merge_strategy='replace') fed by a lazy generator that looks every key up on this handle while
                # the update consumes it; afterwards db[key] must give what is stored now
                keys = [x for x in model.order if not AUTO_RE.match(x)][: st["n"]]
                if keys:
                    newf = [mf(["chrR", "repl", model.feats[x]["cols"][2], 4, 44, ".", "-", "."], [["ID", [x]], ["note", ["second version"]]]) for x in keys]
                    pad = [mf(["chrR", "repl", "exon", 4, 44, ".", "-", "."], [["ID", ["pad%d_%d" % (si, j)]]]) for j in range(max(0, st["n"] - len(keys)))]
                    data = G.source_spec(None, newf + pad, form="gen")
                    data["touch"] = {"h": "h", "keys": keys}
                    ur = call(node, {"op": "update", "h": "h", "data": data, "kw": {"merge_strategy": "replace", "make_backup": False}})
                    if ur["ok"]:
                        model.import_gff3(newf + pad, strategy="replace", id_spec=spec)
                        model.auto_issued = []
                        probes["update_fed_by_generator_reading_the_handle"] = 1
                        for x in keys:
                            g2 = call(node, {"op": "get", "h": "h", "key": x})
                            df = diff_feature(model.feats[x], g2["f"]) if g2["ok"] else ["raised %s" % g2["exc"]]
                            if df:
                                V.append(viol("C04.lookup", "db[%r] after update(replace) fed by a generator that read the handle: %s" % (x, "; ".join(df[:2])),
                                              kind="stale_lookup_after_update"))
                                break
                        if V:
                            break
                    else:
                        call(node, {"op": "gc"})
                continue
            if k == "foreign" and alive and model.order:
                # look-up through this handle, a write by ANOTHER process, look-up through this handle again
                key = model.order[int(st["pick"] * len(model.order)) % len(model.order)]
                g = call(node, {"op": "get", "h": "h", "key": key})
                other = w.node()
                call(other, {"op": "open", "h": "x", "db": "a.db"})
                if st["what"] == "delete":
                    wr = call(other, {"op": "delete", "h": "x", "ids": [key], "form": "str", "kw": {"make_backup": False}})
                    if wr["ok"]:
                        model.delete([key])
                else:
                    nf = mf(["chrF", "foreign", model.feats[key]["cols"][2], 7, 77, ".", "+", "."], [["ID", [key]], ["note", ["replaced elsewhere"]]])
                    wr = {"ok": False}
                    if spec in (None, "ID", ["ID", "Name"]):
                        wr = call(other, {"op": "update", "h": "x", "data": G.source_spec(None, [nf], form="list"),
                                          "kw": {"merge_strategy": "replace", "make_backup": False}})
                        if wr["ok"]:
                            model.import_gff3([nf], strategy="replace", id_spec=spec)
                            model.auto_issued = []
                other.close()
                if wr["ok"]:
                    probes["write_by_other_process_between_lookups"] = 1
                    g2 = call(node, {"op": "get", "h": "h", "key": key})
                    if key not in model.feats:
                        if g2["ok"] or g2["exc"] != "FeatureNotFoundError":
                            V.append(viol("C04.lookup", "db[%r] still answers after another process deleted it" % key, kind="stale_lookup_other_process",
                                          what="delete"))
                            break
                    else:
                        df = diff_feature(model.feats[key], g2["f"]) if g2["ok"] else ["raised %s" % g2["exc"]]
                        if df:
                            V.append(viol("C04.lookup", "db[%r] after another process replaced it: %s" % (key, "; ".join(df[:2])),
                                          kind="stale_lookup_other_process", what="replace"))
                            break
                continue
            if k not in ("create", "update"):
                continue
            kw = {"merge_strategy": "create_unique"}
            if fmt == "gtf":
                kw.update({"disable_infer_genes": True, "disable_infer_transcripts": True})
            req = {"op": k, "h": "h", "data": G.source_spec(None, st["feats"], form=st["form"], d=d_), "kw": kw}
            if case.get("pct_nonascii") and fmt == "gff3":
                # the file spells non-ASCII characters as UTF-8 percent-escapes; the decoded value is the key
                enc = lambda t: "".join(ch if ord(ch) < 128 else "".join("%%%02X" % b for b in ch.encode("utf-8")) for ch in t)
                if "text" in req["data"]:
                    req["data"]["text"] = enc(req["data"]["text"])
                if "lines" in req["data"]:
                    req["data"]["lines"] = [enc(x) for x in req["data"]["lines"]]
            latin = False
            if case.get("latin1") and k == "create" and st["form"] in ("path", "gz") and not (case.get("pct_nonascii") and fmt == "gff3"):
                try:
                    req["data"]["text"].encode("latin-1")
                    latin = any(ord(ch) > 127 for ch in req["data"]["text"])
                except UnicodeEncodeError:
                    latin = False
                if latin:
                    req["data"]["encoding"] = "latin-1"
            if case.get("gtf_other_keys"):
                # gtf_gene_key / gtf_transcript_key say where RELATIONS come from; the default id_spec stays gene_id / transcript_id
                kw.update({"gtf_gene_key": "gene_name", "gtf_transcript_key": "tx_name"})
                for f in st["feats"]:
                    have = dict((a[0], a[1]) for a in f["attrs"])
                    if "gene_id" in have and "gene_name" not in have:
                        f["attrs"].append(["gene_name", ["N" + have["gene_id"][0]]])
                    if "transcript_id" in have and "tx_name" not in have:
                        f["attrs"].append(["tx_name", ["N" + have["transcript_id"][0]]])
                req["data"] = G.source_spec(None, st["feats"], form=st["form"], d=d_)
                probes["gtf_relation_keys_differ_from_id_keys"] = 1
            if spec is not None:
                req["id_spec"] = spec
            if k == "create":
                req["db"] = ":memory:" if case.get("memory") else "a.db"
                if case.get("memory"):
                    probes["memory_database"] = 1
            else:
                kw["make_backup"] = False
            pre = model.clone()
            expect_fail = None
            try:
                if fmt == "gff3":
                    model.import_gff3(st["feats"], strategy="create_unique", id_spec=spec)
                else:
                    model.import_gtf(st["feats"], strategy="create_unique", id_spec=spec, infer=False)
            except ModelError as e:
                expect_fail = str(e)
                model = pre
            except Undefined:
                out["discarded"] = True
                break
            issued = list(model.auto_issued)
            r = call(node, req)
            if latin and not r["ok"] and r["exc"] == "UnicodeDecodeError":
                probes["non_utf8_file_refused"] = 1
                multi_rejected = True
                break
            if expect_fail:
                if r["ok"]:
                    V.append(viol("C04.reject", "%s accepted input the statement says must be rejected (%s)" % (k, expect_fail),
                                  kind="not_rejected"))
                else:
                    probes["multi_valued_id_rejected"] = probes.get("multi_valued_id_rejected", 0) + 1
                multi_rejected = True
                break
            if not r["ok"]:
                V.append(viol("C04.keys", "%s with id_spec=%r raised %s: %s" % (k, spec, r["exc"], r["msg"]), kind="import_failed",
                              exc=r["exc"], spec=_sk(spec)))
                break
            alive = True
            if issued:
                auto_seen = True
            if len(issued) < len([f for f in st["feats"]]):
                attr_seen = True
            d = call(node, {"op": "dump", "h": "h", "relations": False})
            if not d["ok"]:
                V.append(viol("C04.keys", "reading back failed: %s %s" % (d["exc"], d["msg"]), kind="read_failed"))
                break
            got = [f["id"] for f in d["dump"]["features"]]
            if got != model.order:
                V.append(viol("C04.keys", "after %s #%d with id_spec=%r keys are %r, expected %r" % (k, si, spec, got, model.order),
                              kind="keys_differ", spec=_sk(spec), op=k, after_reopen=any(s["op"] in ("reopen", "restart") for s in case["steps"][:si])))
                break
            if len(set(got)) != len(got):
                V.append(viol("C04.keys", "duplicate keys %r" % got, kind="not_unique"))
                break
            out["digests"].add(core.digest(got))
        # look-ups
        if alive and not V and not out.get("discarded") and node.alive and model.order:
            keys = list(model.order)
            for key in qrng.sample(keys, min(len(keys), 5)):
                g = call(node, {"op": "get", "h": "h", "key": key, "as_feature": qrng.random() < 0.3})
                if not g["ok"]:
                    V.append(viol("C04.lookup", "db[%r] raised %s" % (key, g["exc"]), kind="lookup_failed"))
                    break
                df = diff_feature(model.feats[key], g["f"])
                if df:
                    V.append(viol("C04.lookup", "db[%r] returned another feature: %s" % (key, "; ".join(df[:3])), kind="lookup_wrong"))
                    break
            for key in ["nope", keys[0] + "_x", keys[0][:-1] if len(keys[0]) > 1 else "0", keys[0].upper() if keys[0].upper() != keys[0] else "Q"]:
                if key in model.feats:
                    continue
                g = call(node, {"op": "get", "h": "h", "key": key})
                if g["ok"] or g["exc"] != "FeatureNotFoundError":
                    V.append(viol("C04.lookup", "db[%r] (absent) gave %s instead of FeatureNotFoundError" % (
                        key, "a feature " + str(g.get("f", {}).get("id")) if g["ok"] else g["exc"]), kind="absent_key"))
                    break
        out["stats"] = w.stats
    if case.get("fault_profile") and fmt == "gff3" and not V and not out.get("discarded") and not multi_rejected:
        # the id counters under faults: source failure positions / sql error / cancel / crash in an update, then
        # reopen or restart and a further update - keys must continue and never be reused
        from checks import c10
        steps = [dict(s, strategy="create_unique") for s in case["steps"] if s["op"] in ("create", "update", "reopen", "restart", "gc")]
        vs, st2, pr2 = c10.fault_profile(steps, {"id_spec": spec, "memory": case.get("memory")}, case["fault_seed"], "C04.faulted")
        V.extend(vs)
        c10._merge_stats(out["stats"], st2)
        for k2, v2 in pr2.items():
            probes["faulted_" + k2] = probes.get("faulted_" + k2, 0) + v2
        journal.append(("fault_profile", len(vs)))
    out["trace_hash"] = core.digest(journal)
    out["nontrivial"] = auto_seen and attr_seen
    out["sample"] = {"id_spec": spec, "fmt": fmt,
                     "steps": [dict(op=s["op"], lines=G.lines_of(s.get("feats", []), d_)[:6]) for s in case["steps"]]}
    return out


def _sk(spec):
    if spec is None:
        return "default"
    if isinstance(spec, str):
        return "colon" if spec.startswith(":") else "string"
    if isinstance(spec, list):
        return "list"
    if "callable" in spec:
        return "callable:" + spec["callable"]
    return "dict"
