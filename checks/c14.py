"""
C14 - directives are all kept in order; comments, blanks and FASTA are not features.

The file iterator reads its input twice (dialect peek, then the real pass) and hands its
directive list over to the importer, which persists it at finalisation.  The simulation
places directives before / inside / after the peek window, iterates once or twice, imports
through path and from_string forms, and reads db.directives from the returned handle,
from a second handle, and from a fresh process after a normal exit or a crash-exit.
"""
from sim import core
from sim import gen as G
from sim.core import World, raw_dump, logical
from sim.node import NodeDied
from sim.runner import viol

ID = "C14"
LEVEL = "exploration"
RULE = ("seeded files interleaving '##' directives, '#' comments, empty lines and 1-9 feature lines, optional '##FASTA' or '>' "
        "tail with directive-/feature-looking junk after it, checklines in {0,1,2,3,10}; observed through DataIterator (1-2 "
        "passes), create_db (path / from_string), second handle, fresh process after exit or crash-exit. distinct = journal "
        "hash; non-trivial = >=1 directive and >=1 feature, with a directive beyond the peek window counted as a probe")
ASSUMPTIONS = ["only truly empty lines are generated as blank lines (whitespace-only lines are outside the statement)"]


def budget(tier):
    if tier == "quick":
        return {"runs": 3000, "wall": 120, "chunk": 10}
    return {"runs": 120000, "wall": 1200, "chunk": 10}


DIRS = ["gff-version 3", "sequence-region chr1 1 1000", "species x", "FASTA-source genome.fa", "FASTAfile x", "#", "date 2020", "feature-ontology so.obo", "x y  z ", "", "0", "note a\u2028b", "form\x0cfeed", "nel\x85here"]


def gen(rng, tier):
    fmt = "gff3" if rng.random() < 0.7 else "gtf"
    if fmt == "gff3":
        feats = G.gff3_batch(rng, rng.randint(1, 9) if rng.random() > 0.03 else rng.choice([150, 400, 1050]), {"p_id": 0.3 if rng.random() < 0.5 else 0.8, "p_parent": 0.4, "seqids": ["chr1"], "pool": [1, 5, 10, 20]},
                             unique_ids=True)
    else:
        feats = []
        while not feats:
            feats = G.gtf_annotation(rng, {"max_genes": 2})
    d = G.DEFAULT_GFF3 if fmt == "gff3" else G.DEFAULT_GTF
    items = [["f", G.render_line(f, d)] for f in feats]
    n_dir = rng.choice([0, 1, 1, 2, 3, 4])
    extras = [["d", "##" + rng.choice(DIRS)] for _ in range(n_dir)]
    extras += [["c", "#" + rng.choice([" a comment", "comment", " chr1\tx\tgene\t1\t2\t.\t+\t.\tID=zz", " odd\u2028chr1\tx\tgene\t1\t2\t.\t+\t.\tID=yy"])] for _ in range(rng.choice([0, 0, 1, 2]))]
    extras += [["b", ""] for _ in range(rng.choice([0, 0, 1, 2]))]
    where = rng.choice(["head", "anywhere", "anywhere", "tail"])
    for e in extras:
        if where == "head":
            pos = rng.randint(0, min(1, len(items)))
        elif where == "tail":
            pos = rng.randint(max(0, len(items) - 1), len(items))
        else:
            pos = rng.randint(0, len(items))
        items.insert(pos, e)
    fasta = rng.choice([None, None, "##FASTA", ">chr1"])
    if fasta:
        items.append(["x", fasta])
        junk = ["ACGTACGT", "##late-directive 1", "chr1\tsrc\tgene\t1\t9\t.\t+\t.\tID=junk", ">chr2", "#c", ""]
        for _ in range(rng.randint(0, 4)):
            items.append(["j", rng.choice(junk)])
    return {"fmt": fmt, "items": items, "checklines": rng.choice([0, 1, 2, 3, 10]), "form": rng.choice(["path", "string", "gz"]),
            "crlf": rng.random() < 0.2, "gz_members": rng.choice([1, 1, 2]),
            "passes": rng.choice([1, 1, 2]), "end": rng.choice(["exit", "crash", "exit"]), "second_handle": rng.random() < 0.4,
            "abandon": rng.choice([None, None, 0, 1, 2]), "update_after": rng.random() < 0.4,
            "locked_at": rng.choice([None, None, None, 0, 1, 2, 3, 4, 5, 6]),
            "explicit_dialect": rng.random() < 0.2, "failed_update_probe": rng.random() < 0.2,
            # the same process has already built and opened a database of ANOTHER annotation under this very file name
            "prior_tenant": rng.choice([False, False, False, False, False, False, False, "dropped", "dropped", "kept"]),
            # another annotation is read by a second iterator at the same time (zip-style), in this schedule
            "companion": [rng.randrange(2) for _ in range(rng.randint(1, 12))] if rng.random() < 0.25 else None,
            "open_pragmas": rng.choice([None, None, {"reverse_unordered_selects": "ON"}, {"cache_size": 5, "temp_store": 2},
                                        {"synchronous": "OFF", "reverse_unordered_selects": "ON"}])}


COMPANION_DIRS = ["companion-file 1", "other B"]
COMPANION = ("##companion-file 1\nchrC\tsrc\tgene\t1\t5\t.\t+\t.\tID=cc1\n##other B\n#c\nchrC\tsrc\tgene\t2\t6\t.\t+\t.\tID=cc2\n"
             "chrC\tsrc\tgene\t3\t7\t.\t+\t.\tID=cc3\n")


def expected(items):
    dirs, feats = [], []
    for k, line in items:
        if line == "##FASTA" or line.startswith(">"):
            break
        if line.startswith("##"):
            dirs.append(line[2:])
        elif line.startswith("#") or line == "":
            continue
        else:
            feats.append(line)
    return dirs, feats


def run(case):
    out = {"violations": [], "probes": {}, "stats": {}}
    V = out["violations"]
    probes = out["probes"]
    items = case["items"]
    dirs, flines = expected(items)
    if not flines:
        out["discarded"] = True
        return out
    nl = "\r\n" if case.get("crlf") else "\n"
    text = nl.join(l for _, l in items) + nl
    if case.get("crlf"):
        probes["crlf_line_ends"] = 1
    cl = case["checklines"]
    # probe: a directive that sits after the first checklines+1 features
    nf = 0
    beyond = False
    for k, line in items:
        if k == "f":
            nf += 1
        elif k == "d" and nf > cl + 1:
            beyond = True
        elif k == "x":
            break
    if beyond:
        probes["directive_beyond_peek_window"] = 1
    journal = []
    with World("c14_") as w:
        def call(n, op):
            r = w.call(n, op)
            journal.append((op["op"], core.digest({k: v for k, v in r.items() if k != "kinds"})))
            return r

        n = w.node()
        spec = {"form": case["form"], "text": text, "name": "in.gff", "members": case.get("gz_members", 1)}
        # 1. the iterator itself
        rq = {"op": "dataiter", "data": spec, "kw": {"checklines": cl}, "passes": case["passes"]}
        if case.get("abandon") is not None:
            rq["abandon"] = case["abandon"]
            probes["abandoned_pass_collected_after_full_pass"] = 1
        if case.get("companion") is not None and case.get("abandon") is None:
            rq["companion"] = {"text": COMPANION, "schedule": case["companion"]}
            rq.pop("passes")
            probes["second_iterator_over_another_file_interleaved"] = 1
        r = call(n, rq)
        if r["ok"] and r.get("companion") is not None and r["companion"]["directives"] != COMPANION_DIRS:
            V.append(viol("C14.iter", "a second DataIterator over another file, advanced alternately, ends with directives %r, its file has %r" % (
                r["companion"]["directives"], COMPANION_DIRS), kind="iter_directives", form="companion"))
        if not r["ok"]:
            V.append(viol("C14.iter", "iterating the input raised %s: %s" % (r["exc"], r["msg"]), kind="iter_failed", exc=r["exc"]))
        else:
            for pi, p in enumerate(r["passes"]):
                if p["directives"] != dirs:
                    V.append(viol("C14.iter", "DataIterator.directives after pass %d = %r, expected %r" % (pi + 1, p["directives"], dirs),
                                  kind="iter_directives", form=case["form"]))
                    break
                got = [f["line"] for f in p["features"]]
                if len(got) != len(flines):
                    V.append(viol("C14.iter", "pass %d yielded %d features, expected %d (comment/blank/FASTA lines are not features)" % (
                        pi + 1, len(got), len(flines)), kind="iter_feature_count"))
                    break
        # 2. import and persistence
        if not V:
            ckw = {"checklines": cl, "merge_strategy": "create_unique", "disable_infer_genes": True, "disable_infer_transcripts": True}
            creq = {"op": "create", "h": "h", "db": "a.db", "data": spec, "kw": ckw}
            if case.get("explicit_dialect"):
                creq["explicit_dialect"] = True  # dialect= stated by the caller instead of inferred
                probes["dialect_given_by_caller"] = 1
            if case.get("prior_tenant"):
                pt = call(n, {"op": "create", "h": "prior", "db": "a.db", "data": {"form": "string", "text": COMPANION},
                              "kw": {"merge_strategy": "create_unique"}})
                if pt["ok"]:
                    call(n, {"op": "dump", "h": "prior", "relations": False})
                    call(n, {"op": "open", "h": "prior2", "db": "a.db"})
                    if case["prior_tenant"] != "kept":
                        call(n, {"op": "drop", "h": "prior"})
                    call(n, {"op": "drop", "h": "prior2"})
                    call(n, {"op": "gc"})
                    ckw = dict(ckw, force=True)
                    creq["kw"] = ckw
                    probes["file_name_previously_held_another_annotation"] = 1
            if case.get("locked_at") is not None:
                # 'database is locked' at one commit of the import: the call may fail (then a forced re-import must
                # be right) or succeed (then the directives must be exact) - never store a directive twice
                creq["faults"] = [{"kind": "commit", "nth": case["locked_at"], "mode": "locked"}]
            r = call(n, creq)
            if not r["ok"] and r.get("injected"):
                probes["import_failed_on_locked_commit"] = 1
                call(n, {"op": "gc"})
                r = call(n, dict(creq, kw=dict(ckw, force=True), faults=[]))
            elif r["ok"] and r.get("fired"):
                probes["import_survived_locked_commit"] = 1
            if not r["ok"]:
                V.append(viol("C14.db", "create_db raised %s: %s" % (r["exc"], r["msg"]), kind="create_failed", exc=r["exc"]))
            else:
                d = call(n, {"op": "dump", "h": "h", "relations": False})
                views = [("returned handle", d, len(flines))]
                if case["second_handle"]:
                    call(n, {"op": "open", "h": "h2", "db": "a.db"})
                    views.append(("second handle", call(n, {"op": "dump", "h": "h2", "relations": False}), len(flines)))
                if case.get("update_after"):
                    # a later update() must not disturb the stored directives (checked by the fresh process below)
                    uline = ('chr1\tsrc\texon\t3\t9\t.\t+\t.\tID=upd1' if case["fmt"] == "gff3" else
                             'chr1\tsrc\texon\t3\t9\t.\t+\t.\tgene_id "UG"; transcript_id "UT";')
                    ur = call(n, {"op": "update", "h": "h", "data": {"form": "string", "text": uline + "\n"},
                                  "kw": {"merge_strategy": "create_unique", "make_backup": False, "disable_infer_genes": True,
                                         "disable_infer_transcripts": True}})
                    if ur["ok"]:
                        flines = flines + [uline]
                        probes["update_between_import_and_reopen"] = 1
                if case.get("prior_tenant") == "kept" and probes.get("file_name_previously_held_another_annotation"):
                    # the handle opened on the PREVIOUS database of this file name is still around and is used for an update now:
                    # the directives of the file as it is now must stay
                    uline2 = ('chr1\tsrc\texon\t4\t8\t.\t+\t.\tID=stale1' if case["fmt"] == "gff3" else
                              'chr1\tsrc\texon\t4\t8\t.\t+\t.\tgene_id "SG"; transcript_id "ST";')
                    su = call(n, {"op": "update", "h": "prior", "data": {"form": "string", "text": uline2 + "\n"},
                                  "kw": {"merge_strategy": "create_unique", "make_backup": False, "disable_infer_genes": True,
                                         "disable_infer_transcripts": True}})
                    if su["ok"]:
                        flines = flines + [uline2]
                        probes["update_through_handle_of_the_previous_tenant"] = 1
                if case.get("failed_update_probe") and not case.get("update_after"):
                    from sim.probes import failed_update_probe
                    failed_update_probe(w, call, n, "h", "a.db", case["fmt"] == "gtf", V, viol, "C14.db", probes)
                if case["end"] == "crash":
                    try:
                        call(n, {"op": "gc", "faults": []})
                        n.kill()
                        probes["crash_exit"] = 1
                    except NodeDied:
                        pass
                else:
                    n.close()
                o = w.node()
                okw = {}
                if case.get("open_pragmas"):
                    okw["pragmas"] = case["open_pragmas"]  # the reader's own connection settings must not matter
                    probes["reopened_with_other_pragmas"] = 1
                call(o, {"op": "open", "h": "o", "db": "a.db", "kw": okw})
                views.append(("fresh process", call(o, {"op": "dump", "h": "o", "relations": False}), len(flines)))
                o.close()
                for name, v, nexp in views:
                    if not v["ok"]:
                        V.append(viol("C14.db", "%s: reading failed %s %s" % (name, v["exc"], v["msg"]), kind="read_failed"))
                        break
                    got = v["dump"]["directives"]
                    if got != dirs:
                        lost = [x for x in dirs if x not in got]
                        V.append(viol("C14.db", "%s: db.directives = %r, expected %r (checklines=%d)" % (name, got, dirs, cl),
                                      kind="db_directives", lost=bool(lost), extra=bool([x for x in got if x not in dirs]) and not lost))
                        break
                    if len(v["dump"]["features"]) != nexp:
                        V.append(viol("C14.db", "%s: %d features stored, expected %d" % (name, len(v["dump"]["features"]), nexp),
                                      kind="db_feature_count"))
                        break
                raw = logical(raw_dump(w.p("a.db")))
                if not V and [x[0] for x in raw["directives"]] != dirs:
                    V.append(viol("C14.db", "directives table %r, expected %r" % (raw["directives"], dirs), kind="db_directives_raw"))
        out["stats"] = w.stats
    out["trace_hash"] = core.digest(journal)
    out["nontrivial"] = bool(dirs) and bool(flines)
    out["sample"] = {"lines": [l for _, l in items][:12], "checklines": cl, "form": case["form"], "passes": case["passes"]}
    return out
