#!/venv/bin/python
"""
CLI: checks/run.py <ID> [--tier quick|thorough] [--replay file]

Re-executes itself with PYTHONHASHSEED=0 (S9: hash-order dependent choices in gffutils
would otherwise make a run a function of more than its seed).
exit 0: property held on everything explored (KNOWN-FINDING lines possible)
exit 1: VIOLATION property=<id> replay=<path>
exit 2: HARNESS-ERROR (never counts as a pass)
"""
import os
import sys

HERE = os.path.dirname(os.path.abspath(__file__))
ROOT = os.path.dirname(HERE)


def main():
    if os.environ.get("PYTHONHASHSEED") != "0":
        env = dict(os.environ)
        env["PYTHONHASHSEED"] = "0"
        os.execve(sys.executable, [sys.executable] + sys.argv, env)
    sys.path.insert(0, ROOT)
    args = sys.argv[1:]
    if not args:
        print(__doc__)
        return 2
    check_id = args[0].upper()
    tier = os.environ.get("VERIF_TIER", "quick")
    rp = None
    i = 1
    while i < len(args):
        if args[i] == "--tier":
            tier = args[i + 1]
            i += 2
        elif args[i] == "--replay":
            rp = args[i + 1]
            i += 2
        else:
            i += 1
    from sim import runner

    if rp:
        return runner.replay(check_id, rp)
    return runner.main(check_id, tier)


if __name__ == "__main__":
    try:
        rc = main()
    except SystemExit:
        raise
    except BaseException:
        import traceback

        traceback.print_exc()
        print("HARNESS-ERROR: unhandled exception in the check driver")
        rc = 2
    sys.stdout.flush()
    os._exit(rc)
