"""
C05 - duplicate keys are resolved exactly as the chosen merge_strategy says.

Histories of colliding arrivals across create_db and update calls, with reopen / restart /
gc between arrivals so that the duplicates table and the '<key>' counters must come back
from disk.  Fault-free profile decides; reference model of the five strategies as worded
in the statement; conservation of features, attribute values and Parent links.
"""
import random

from sim import core
from sim import gen as G
from sim.core import World
from sim.model import Model, ModelError, Undefined, diff_store, mf
from sim.node import NodeDied
from sim.runner import viol

ID = "C05"
LEVEL = "exploration"
RULE = ("seeded histories: create_db(strategy) then 0-3 update(strategy') calls whose features collide on <= 3 keys, columns drawn "
        "from 2-value sets so that arrivals agree or differ in 0-2 columns, overlapping attribute sets, Parent values, third and "
        "later arrivals meeting '<key>_n' entries; reopen/restart/gc between calls; force_merge_fields fixed per database; GFF3 "
        "and GTF importers. distinct = journal hash; non-trivial = >= 2 arrivals under one key")
ASSUMPTIONS = ["value order inside merged attributes is left open (hash-order dependent, statement silent)",
               "force_merge_fields is fixed for the life of a database; cases where two stored candidates match one newcomer are discarded",
               "level-2 rows are not compared after a 'replace' that changed Parent links"]

STRATS = ["error", "warning", "replace", "create_unique", "merge"]


def budget(tier):
    if tier == "quick":
        return {"runs": 2000, "wall": 120, "chunk": 8}
    return {"runs": 100000, "wall": 1500, "chunk": 8}


def feat(rng, gtf=False):
    ident = rng.choice(["a", "a", "b", "c"])
    cols = ["chr1", rng.choice(["src", "src", "alt"]), "exon", rng.choice([1, 1, 5]), 10, rng.choice([".", ".", "7"]),
            rng.choice(["+", "+", "-"]), rng.choice([".", ".", "0"])]
    if gtf:
        attrs = [["gene_id", [rng.choice(["G1", "G2"])]], ["transcript_id", [rng.choice(["T1", "T2"])]], ["exon_id", [ident]]]
    else:
        attrs = [["ID", [ident]]]
        if rng.random() < 0.5:
            attrs.append(["Parent", rng.sample(["p", "q", "r"], rng.choice([1, 1, 2]))])
    if rng.random() < 0.6:
        vals = rng.sample(["n1", "n2", "n3"], rng.choice([1, 1, 2]))
        if rng.random() < 0.15:
            vals = vals + [vals[0]]  # the same value twice on one line ("union without repeats" must still hold)
        attrs.append(["Name", vals])
    if rng.random() < 0.3:
        attrs.append(["note", [rng.choice(["x", "y"])]])
    if rng.random() < 0.12:
        # attributes whose key is also the name of a column
        attrs.append([rng.choice(["score", "source", "strand"]), [rng.choice(["0.9", "nr", "+"])]])
    if rng.random() < 0.1:
        attrs.append(["pseudo", []])  # a flag without a value (`;pseudo` / `pseudo "";`): a key like any other
    if rng.random() < 0.08:
        cols[3] = cols[4] = None  # '.' coordinates
    extra = []
    return mf(cols, attrs, extra)


def gen(rng, tier):
    gtf = rng.random() < 0.25
    fmf = []
    if rng.random() < 0.4:
        fmf = rng.sample(["source", "score", "strand", "frame"], rng.choice([1, 1, 2]))
    steps = []
    s0 = rng.choice(STRATS)
    steps.append({"op": "create", "feats": [feat(rng, gtf) for _ in range(rng.randint(1, 5))], "strategy": s0,
                  "form": rng.choice(["path", "list", "gen", "string"])})
    # parents exist sometimes
    if not gtf and rng.random() < 0.5:
        for p in ("p", "q"):
            steps[0]["feats"].insert(rng.randint(0, len(steps[0]["feats"])),
                                     mf(["chr1", "src", "gene", 1, 50, ".", "+", "."], [["ID", [p]]]))
    for _ in range(rng.choice([0, 1, 1, 2, 3])):
        steps.append({"op": rng.choice(["reopen", "restart", "gc", "none"])})
        steps.append({"op": "update", "feats": [feat(rng, gtf) for _ in range(rng.randint(1, 4))],
                      "strategy": rng.choice(STRATS + ["merge", "merge"]), "form": rng.choice(["path", "list", "gen", "iter1", "string"])})
    steps.append({"op": rng.choice(["reopen", "restart", "none"])})
    memory = rng.random() < 0.15
    if memory:
        steps = [st for st in steps if st["op"] not in ("reopen", "restart")]
    case = {"gtf": gtf, "fmf": fmf, "steps": steps, "memory": memory, "warn_error": rng.random() < 0.2, "fault_profile": rng.random() < (0.2 if not memory else 0.5), "fault_seed": rng.getrandbits(32)}
    if not memory and rng.random() < 0.3:
        # a second handle, opened right after create_db and idle since, makes the last update: a merge of lines that agree
        # (columns) with lines of the update before it, which the first handle filed in the meantime
        case["stale_writer"] = True
        prev = [feat(rng, gtf) for _ in range(rng.randint(1, 3))]
        again = []
        for f in prev:
            g = mf(f["cols"], [kv for kv in f["attrs"] if kv[0] != "Name"] + [["Name", rng.sample(["n1", "n4", "n5"], rng.choice([1, 2]))]], f["extra"])
            again.append(g)
        tail = [st for st in steps[-1:] if st["op"] in ("reopen", "restart", "none")]
        steps[len(steps) - len(tail):] = [
            {"op": "update", "feats": prev, "strategy": rng.choice(["merge", "create_unique", "merge"]), "form": rng.choice(["path", "list", "gen"])},
            {"op": rng.choice(["none", "gc", "reopen"])},
            {"op": "update", "feats": again, "strategy": "merge", "form": rng.choice(["path", "list", "gen", "string"]), "stale_writer": True},
        ] + tail
    elif rng.random() < 0.3:
        # the primary '<key>' feature is deleted ('<key>_n' entries stay), the key is used again, and then lines that agree with
        # the surviving '<key>_n' entries arrive under 'merge': they belong into those entries
        key = rng.choice(["a", "a", "b", "c"])
        idk = "exon_id" if gtf else "ID"
        earlier = [f for st in steps if st.get("feats") for f in st["feats"] if any(k == idk and v == [key] for k, v in f["attrs"])]
        again = [mf(f["cols"], [kv for kv in f["attrs"] if kv[0] != "Name"] + [["Name", rng.sample(["n1", "n4", "n5"], rng.choice([1, 2]))]], f["extra"])
                 for f in earlier[:4]]
        if again:
            case["delete_readd"] = True
            tail = [st for st in steps[-1:] if st["op"] in ("reopen", "restart", "none")]
            steps[len(steps) - len(tail):] = [
                {"op": "delete", "ids": [key]},
                {"op": rng.choice(["none", "reopen", "gc"] if not memory else ["none", "gc", "gc"])},
                {"op": "update", "feats": [feat(rng, gtf) for _ in range(rng.randint(1, 3))], "strategy": rng.choice(["merge", "create_unique"]),
                 "form": rng.choice(["path", "list", "gen"])},
                {"op": "update", "feats": again, "strategy": "merge", "form": rng.choice(["path", "list", "gen", "string"])},
            ] + tail
    return case


def run(case):
    out = {"violations": [], "probes": {}, "stats": {}, "digests": set()}
    V = out["violations"]
    probes = out["probes"]
    journal = []
    gtf = case["gtf"]
    model = Model("gtf" if gtf else "gff3")
    model.gtf["dig"] = model.gtf["dit"] = True
    d_ = G.DEFAULT_GTF if gtf else G.DEFAULT_GFF3
    id_spec = {"gene": "gene_id", "transcript": "transcript_id", "exon": "exon_id"} if gtf else None
    fmf = tuple(case["fmf"])
    multi = False
    with World("c05_") as w:
        def call(n, op):
            r = w.call(n, op)
            journal.append((op["op"], core.digest({k: v for k, v in r.items() if k != "kinds"})))
            return r

        def compare(where):
            r = call(node, {"op": "dump", "h": "h"})
            if not r["ok"]:
                V.append(viol("C05.read", "%s: reading failed %s %s" % (where, r["exc"], r["msg"]), kind="read_failed"))
                return False
            model.auto_issued = []
            df = diff_store(model, r["dump"])
            out["digests"].add(core.digest(r["dump"]["features"]))
            if df and all(k == "replace_stale_parent_link" for k, _ in df):
                V.append(viol("C05.links", "%s: %s" % (where, df[0][1]), kind="replace_stale_parent_link"))
                model.rel |= model.stale_links
                model.stale_links = set()
                return True
            if df:
                V.append(viol("C05.outcome", "%s: %s" % (where, "; ".join(t for _, t in df[:4])), kind=df[0][0],
                              strategy=last_strategy[0], fmf=bool(fmf), gtf=gtf))
                return False
            return True

        node = w.node()
        other = None
        filed_later = set()
        alive = False
        last_strategy = [None]
        hard = False
        for si, st in enumerate(case["steps"]):
            if hard:
                break
            k = st["op"]
            if k == "none":
                continue
            if k == "gc":
                call(node, {"op": "gc"})
                continue
            if k == "reopen" and alive:
                call(node, {"op": "drop", "h": "h"})
                call(node, {"op": "gc"})
                call(node, {"op": "open", "h": "h", "db": "a.db"})
                if not compare("after reopen"):
                    hard = True
                continue
            if k == "restart" and alive:
                node.close()
                node = w.node()
                call(node, {"op": "open", "h": "h", "db": "a.db"})
                if not compare("after restart (fresh process)"):
                    hard = True
                continue
            if k == "delete" and alive:
                model.delete([i for i in st["ids"] if i in model.feats])
                r = call(node, {"op": "delete", "h": "h", "ids": st["ids"], "form": "strs", "kw": {"make_backup": False}})
                if not r["ok"]:
                    V.append(viol("C05.outcome", "delete(%r) raised %s: %s" % (st["ids"], r["exc"], r["msg"]), kind="unexpected_exception", exc=r["exc"]))
                    break
                if any(d in model.feats for d in model.dups.get(st["ids"][0], [])):
                    probes["primary_key_deleted_while_its_numbered_entries_stay"] = 1
                if not compare("after delete %r" % (st["ids"],)):
                    break
                continue
            if k not in ("create", "update"):
                continue
            strat = st["strategy"]
            last_strategy[0] = strat
            kw = {"merge_strategy": strat}
            if gtf:
                kw.update({"disable_infer_genes": True, "disable_infer_transcripts": True})
            if strat == "merge" and fmf:
                kw["force_merge_fields"] = list(fmf)
            req = {"op": k, "h": "h", "data": G.source_spec(None, st["feats"], form=st["form"], d=d_), "kw": kw}
            if gtf:
                req["id_spec"] = id_spec
            if case.get("warn_error") and not gtf and not (strat == "merge" and set(fmf) & set(["strand", "frame"])):
                # the caller runs with warnings turned into errors (-W error, pytest filterwarnings=error): the outcome of a
                # strategy must not depend on the warnings filter
                req["warn_error"] = True
                req["no_env"] = True
                probes["warnings_filter_error"] = 1
            if k == "create":
                req["db"] = ":memory:" if case.get("memory") else "a.db"
                if case.get("memory"):
                    probes["memory_database"] = 1
            else:
                kw["make_backup"] = False
            pre = model.clone()
            expect_fail = None
            try:
                if gtf:
                    placed = model.import_gtf(st["feats"], strategy=strat, id_spec=id_spec, fmf=fmf, infer=False)
                else:
                    placed = model.import_gff3(st["feats"], strategy=strat, fmf=fmf)
                if len(set(p for p in placed if p is not None)) < len(placed):
                    multi = True
            except ModelError as e:
                expect_fail = str(e)
                model = pre
            except Undefined:
                out["discarded"] = True
                break
            if st.get("stale_writer") and other is not None and not expect_fail and not model.auto_issued:
                # no new '<key>_n' is needed (the handle's cached counters do not matter): the merge goes through the second,
                # long-open handle and must find the entries the first handle filed after it was opened
                probes["merge_update_through_a_second_handle_opened_before_earlier_updates"] = 1
                if any(p is not None and p in filed_later for p in placed):
                    probes["second_handle_merges_into_an_entry_filed_after_it_was_opened"] = 1
                r = call(other, dict(req, h="h2"))
            else:
                r = call(node, req)
            if not expect_fail and r["ok"] and k == "update":
                filed_later.update(a[0] for a in model.auto_issued)
            if k == "create" and r["ok"] and case.get("stale_writer") and other is None:
                other = w.node()
                call(other, {"op": "open", "h": "h2", "db": "a.db"})
            if expect_fail:
                probes["strategy_error_collision"] = 1
                if r["ok"]:
                    V.append(viol("C05.outcome", "%s with merge_strategy='error' and a duplicate key did not raise" % k, kind="error_not_raised"))
                break
            if not r["ok"]:
                V.append(viol("C05.outcome", "%s(merge_strategy=%r) raised %s: %s" % (k, strat, r["exc"], r["msg"]), kind="unexpected_exception",
                              strategy=strat, exc=r["exc"]))
                break
            alive = True
            if not compare("after %s #%d (merge_strategy=%s%s)" % (k, si, strat, ", force_merge_fields=%r" % (list(fmf),) if fmf and strat == "merge" else "")):
                break
        out["stats"] = w.stats
    hard_v = [v for v in V if v["sig"].get("kind") != "replace_stale_parent_link"]
    if case.get("fault_profile") and not gtf and not hard_v and not out.get("discarded"):
        # the same collision history under faults: source failure positions, sql error / cancel / crash points,
        # then reopen/restart and a further update (relaxed C10-style oracle: pre-state or prefix, ids never recycle)
        from checks import c10
        vs, st2, pr2 = c10.fault_profile(case["steps"], {"fmf": list(fmf), "memory": case.get("memory")}, case["fault_seed"], "C05.faulted")
        V.extend(v for v in vs if v["sig"].get("kind") != "replace_stale_parent_link" or True)
        c10._merge_stats(out["stats"], st2)
        for k2, v2 in pr2.items():
            probes["faulted_" + k2] = probes.get("faulted_" + k2, 0) + v2
        journal.append(("fault_profile", len(vs)))
    out["trace_hash"] = core.digest(journal)
    out["nontrivial"] = multi
    out["sample"] = {"gtf": gtf, "fmf": list(fmf),
                     "steps": [dict(op=s["op"], strategy=s.get("strategy"), lines=G.lines_of(s.get("feats", []), d_)[:6]) for s in case["steps"]]}
    return out
