"""
C01 - import fidelity: every input line is stored once and comes back unchanged, from
every vantage point and after process death.

The simulated dimension (DESIGN §5 C01): the acknowledged import is observed through the
returned handle, a second handle opened while the importer's connection is still alive, a
fresh process after a normal exit and after a crash-exit right after the acknowledgement,
and through the history import -> print all -> re-import.  The dialect space is sampled.
"""
import random

from sim import core
from sim import gen as G
from sim.core import World, raw_dump, logical
from sim.model import mf
from sim.node import NodeDied
from sim.runner import viol

ID = "C01"
LEVEL = "exploration"
RULE = ("seeded files of 1-14 feature lines written in ONE dialect drawn from {GFF3 key=value | GTF key \"value\" | GFF2 key value} x "
        "separator {';', '; ', ' ; '} x trailing semicolon x {comma lists | repeated keys} x percent-escapes x extra columns x '.' "
        "coordinates x valueless flags, line count below/at/above checklines in {0,1,2,10}; file and :memory: databases; keep_order / "
        "sort_attribute_values; vantage points {returned handle, second handle, fresh process after exit, after crash-exit, re-import "
        "of the printed features}. distinct = journal hash; non-trivial = >= 2 lines compared byte-for-byte from >= 2 vantage points")
ASSUMPTIONS = ["with sort_attribute_values=True the printed line is not compared with the input (it is sorted by design); stored values, "
               "their order, and idempotence of printing still are",
               "'one consistent dialect' is generated as: >= 2 attributes per line, one key order for the whole file with the first line "
               "carrying every key when keep_order is judged, every line using repeated keys in repeated-keys files, upper-case escapes "
               "of exactly the characters gffutils re-encodes",
               "GTF imports run with inference disabled (derived features are C03's business)"]

GFF3_VALS = ["a", "b c", "x;y", "p=q", "1,2", "100%", "t\tu", "é", "a&b", "v1", "Z", "a+b"]
PLAIN_VALS = ["a", "b c", "é", "x_1", "v1", "Z", "7", "u\u2028v", "n\x85l"]
PLAIN_ESC_VALS = PLAIN_VALS + ["50%25", "a%3Bb", "x%2Cy", "100%"]  # GTF/GFF2 have no escaping: kept verbatim
# quoted dialect only: a value may itself begin or end with a double quote inside its surrounding quotes
GTF_QUOTE_VALS = PLAIN_VALS + ['"alpha" subunit', 'subunit "beta"', 'a "mid" b']


def budget(tier):
    if tier == "quick":
        return {"runs": 2400, "wall": 120, "chunk": 8}
    return {"runs": 80000, "wall": 1500, "chunk": 8}


def gen(rng, tier):
    fam = rng.choice(["gff3", "gff3", "gtf", "gff2"])
    d = {"fmt": "gff3" if fam == "gff3" else "gtf", "fsep": rng.choice([";", "; ", " ; "]) if fam != "gtf" else rng.choice(["; ", "; ", " ; "]),
         "trail": rng.random() < 0.5, "repeat": rng.random() < 0.3, "quoted": fam == "gtf", "fam": fam}
    if fam == "gff2" and d["fsep"] == ";":
        d["fsep"] = "; "
    if fam == "gff3":
        keys = ["ID", "Parent", "Name", "note", "Alias"]
        vals = GFF3_VALS if rng.random() < 0.6 else PLAIN_VALS
    else:
        keys = ["gene_id", "transcript_id", "exon_number", "tag", "note"]
        vals = PLAIN_ESC_VALS if (fam == "gtf" and rng.random() < 0.4) else PLAIN_VALS
        if fam == "gtf" and rng.random() < 0.15:
            vals = GTF_QUOTE_VALS
    n = rng.choice([1, 2, 3, 3, 5, 8, 11, 14]) if rng.random() > 0.03 else rng.choice([120, 400, 1050])
    keep_order = rng.random() < 0.7
    sortv = rng.random() < 0.2
    extra_cols = rng.choice([0, 0, 0, 1, 2])
    feats = []
    for i in range(n):
        if i == 0 and keep_order:
            ks = list(keys)
        else:
            k = rng.randint(2, len(keys))
            ks = [x for x in keys if x in set(rng.sample(keys, k))]
            if fam == "gff3" and "ID" not in ks and rng.random() < 0.6:
                ks = ["ID"] + ks
            if len(ks) < 2:
                ks = keys[:2]
        attrs = []
        multi_done = False
        for kk in ks:
            if kk == "ID":
                v = ["id%d" % (i if rng.random() < 0.85 else 0)]
            elif kk in ("gene_id", "transcript_id"):
                v = [rng.choice(["G1", "G2", "T1"])]
            else:
                m = 1 if rng.random() < 0.6 else rng.choice([2, 3])
                v = []
                for _ in range(m):
                    x = rng.choice(vals)
                    if x not in v:
                        v.append(x)
                if len(v) >= 2 and rng.random() < 0.12:
                    v.append(v[0])  # a value listed twice is data too (Dbxref=A,B,A)
            attrs.append([kk, v])
        if d["repeat"]:
            # every line shows the repeated-keys convention
            tgt = [a for a in attrs if a[0] not in ("ID", "gene_id", "transcript_id")]
            if not any(len(a[1]) > 1 for a in tgt):
                a = tgt[-1] if tgt else attrs[-1]
                a[1] = [vals[0], vals[5 % len(vals)]] if vals[0] != vals[5 % len(vals)] else [vals[0], vals[1]]
        if fam == "gff3" and rng.random() < 0.15 and len(attrs) >= 2 and not d["repeat"]:
            attrs.insert(rng.randint(1, len(attrs)), ["flag", []])
            if keep_order and i > 0:
                attrs = [a for a in attrs if a[0] != "flag"] + [["flag", []]]
        s, e = G.rand_span(rng, [1, 5, 10, 100, 1 << 17, (1 << 17) + 1] if rng.random() < 0.9 else
                           [1, 100, (1 << 29) - 1, 1 << 29, (1 << 29) + 1, 1 << 31])  # the bin scheme ends at 2**29: still features
        if rng.random() < 0.1:
            s, e = None, None
        ftype = rng.choice(["gene", "mRNA", "exon", "CDS"])
        cols = [rng.choice(["chr1", "chr2", "2L"]), rng.choice(["src", "."]), ftype, s, e, rng.choice([".", "0.5", "12"]),
                rng.choice(["+", "-", "."]), rng.choice([".", "0", "1"])]
        extra = [rng.choice(["x", "y z", "1", "", "x"]) for _ in range(extra_cols)]  # an extra column may be empty (the line then ends with a tab)
        feats.append(mf(cols, attrs, extra))
    if keep_order and feats and fam == "gff3":
        feats[0]["attrs"] = [a for a in feats[0]["attrs"] if a[0] != "flag"]
        if any(a[0] == "flag" for f in feats for a in f["attrs"]):
            feats[0]["attrs"].append(["flag", []])
    checklines = rng.choice([0, 1, 2, 10])
    if rng.random() < 0.4 and len(feats) > checklines + 1:
        late = rng.choice([["zeta", "alpha"], ["Zed", "beta", "Alpha"], ["late2", "late1"]])
        for f in feats[checklines + 1:]:
            if rng.random() < 0.6:
                for lk in late:
                    if rng.random() < 0.8:
                        f["attrs"].append([lk, [rng.choice(PLAIN_VALS)]])
    if fam == "gff3" and not d["trail"]:
        for i, f in enumerate(feats):
            la = f["attrs"][-1] if f["attrs"] else None
            if la and la[1] and la[0] != "ID" and rng.random() < 0.1:
                # the line's last value ends in a blank (no trailing semicolon in this file): the blank is data
                la[1] = list(la[1][:-1]) + [la[1][-1] + " "]
    return {"dialect": d, "feats": feats, "checklines": checklines, "keep_order": keep_order, "sort_values": sortv,
            "dbfn": rng.choice(["a.db", "a.db", "a.db", ":memory:"]), "form": rng.choice(["path", "path", "string", "gz", "gen", "iter1"]),
            "end": rng.choice(["exit", "crash", "crash"]), "directives": rng.choice([[], [], ["gff-version 3"]]),
            "short_writes": rng.random() < 0.5, "interleave": rng.random() < 0.5, "isched": [rng.randrange(2) for _ in range(rng.randint(2, 12))],
            "update_other_dialect": rng.random() < 0.35, "failed_update_probe": rng.random() < 0.25,
            "crashed_first_attempt": rng.choice([None, None, None, {"frac": rng.random(), "mode": rng.choice(["crash", "crash", "torn", "cancel", "error"])}])}


def check_dump(case, lines, d, V, where, check_lines=True):
    feats = case["feats"]
    got = d["features"]
    if case.get("_extra_tail") and len(got) == len(feats) + 1:
        got = got[:-1]  # the feature added by the later update (its own dialect is not judged)
    if len(got) != len(feats):
        V.append(viol("C01.once", "%s: %d features stored for %d input lines" % (where, len(got), len(feats)), kind="count",
                      more=len(got) > len(feats)))
        return False
    for i, (m, g) in enumerate(zip(feats, got)):
        if g["cols"] != m["cols"]:
            V.append(viol("C01.columns", "%s: line %d columns %r != input %r" % (where, i, g["cols"], m["cols"]), kind="columns"))
            return False
        if [[k, list(v)] for k, v in g["attrs"]] != m["attrs"]:
            V.append(viol("C01.attributes", "%s: line %d attributes %r != input %r" % (where, i, g["attrs"], m["attrs"]), kind="attributes",
                          fam=case["dialect"]["fam"]))
            return False
        if list(g["extra"]) != m["extra"]:
            V.append(viol("C01.columns", "%s: line %d extra columns %r != %r" % (where, i, g["extra"], m["extra"]), kind="extra"))
            return False
        if check_lines and g.get("line2", g["line"]) != g["line"]:
            V.append(viol("C01.print", "%s: line %d prints differently the second time: %r then %r" % (where, i, g["line"], g["line2"]),
                          kind="print_not_idempotent"))
            return False
        if check_lines and not case["sort_values"] and g["line"] != lines[i]:
            V.append(viol("C01.print", "%s: line %d printed as %r, input was %r" % (where, i, g["line"], lines[i]), kind="printed_line",
                          fam=case["dialect"]["fam"], keep_order=case["keep_order"]))
            return False
    return True


def run(case):
    out = {"violations": [], "probes": {}, "stats": {}, "digests": set()}
    V = out["violations"]
    probes = out["probes"]
    journal = []
    d_ = case["dialect"]
    feats = case["feats"]
    in_lines = [G.render_line(f, d_) for f in feats]
    if case["form"] in ("gen", "iter1"):
        case = dict(case, directives=[])
    text = "".join("##%s\n" % x for x in case["directives"]) + "\n".join(in_lines) + "\n"
    lines = in_lines
    okw = {"keep_order": case["keep_order"], "sort_attribute_values": case["sort_values"]}
    vantage = 0
    with World("c01_") as w:
        def call(n, op):
            r = w.call(n, op)
            journal.append((op["op"], core.digest({k: v for k, v in r.items() if k != "kinds"})))
            return r

        node = w.node()
        spec = {"form": case["form"], "text": text, "name": "in.gff"}
        if case["form"] in ("gen", "iter1"):
            # a one-shot stream of Feature objects parsed line by line: a generator, or a plain iterator object (map, iter(list), ...)
            spec = {"form": case["form"], "lines": in_lines}
        kw = dict(okw, checklines=case["checklines"], merge_strategy="create_unique")
        if d_["fam"] == "gtf":
            kw.update({"disable_infer_genes": True, "disable_infer_transcripts": True})
        cfa = case.get("crashed_first_attempt")
        if cfa and case["dbfn"] != ":memory:":
            # history: an import of the same input to the same path dies / fails part-way, then the import is run again with
            # force=True - what the first attempt left behind (partial database, journal, temp files) must not matter
            probe_n = w.node()
            pr = w.call(probe_n, {"op": "create", "h": "p", "db": "probe.db", "data": dict(spec, name="probe.gff"), "kw": kw})
            probe_n.close()
            if pr["ok"] and pr["points"] > 3:
                v_n = w.node()
                flt = {"at": min(pr["points"] - 1, int(cfa["frac"] * pr["points"])), "mode": cfa["mode"]}
                if cfa["mode"] == "torn":
                    flt = {"kind": "fs.write", "nth": 0, "mode": "torn"}
                try:
                    fr_ = w.call(v_n, {"op": "create", "h": "h", "db": case["dbfn"], "data": dict(spec, name="first.gff"), "kw": kw, "faults": [flt]})
                    if not fr_["ok"]:
                        probes["first_attempt_failed_then_forced_reimport"] = 1
                    v_n.close()
                except NodeDied:
                    probes["first_attempt_crashed_then_forced_reimport"] = 1
                kw = dict(kw, force=True)
        creq = {"op": "create", "h": "h", "db": case["dbfn"], "data": spec, "kw": kw}
        if case["form"] == "string" and case.get("short_writes"):
            creq["short_writes"] = True  # buggify: os.write() on world files performs legal short writes
            probes["string_form_with_short_write_buggify"] = 1
        r = call(node, creq)
        if not r["ok"]:
            V.append(viol("C01.import", "create_db raised %s: %s" % (r["exc"], r["msg"]), kind="import_failed", exc=r["exc"], fam=d_["fam"]))
        else:
            d = call(node, {"op": "dump", "h": "h", "relations": False})
            ok = d["ok"] and check_dump(case, lines, d["dump"], V, "returned handle")
            if not d["ok"]:
                V.append(viol("C01.import", "reading back failed: %s %s" % (d["exc"], d["msg"]), kind="read_failed"))
            vantage += 1
            if ok and case["dbfn"] != ":memory:":
                out["digests"].add(core.digest(logical(raw_dump(w.p("a.db")))["features"]))
                # second handle while the importer's connection is still alive
                r2 = call(node, {"op": "open", "h": "h2", "db": "a.db", "kw": okw})
                d2 = call(node, {"op": "dump", "h": "h2", "relations": False})
                if not d2["ok"]:
                    V.append(viol("C01.reopen", "second handle cannot read: %s %s" % (d2["exc"], d2["msg"]), kind="second_handle_failed"))
                    ok = False
                else:
                    ok = check_dump(case, lines, d2["dump"], V, "second handle")
                    vantage += 1
                # re-import of the printed features (history import -> print -> import)
                if ok:
                    call(node, {"op": "export", "h": "h", "name": "printed.gff"})
                    r3 = call(node, {"op": "create", "h": "h3", "db": "b.db", "data": {"form": "existing", "name": "printed.gff"}, "kw": kw})
                    if not r3["ok"]:
                        V.append(viol("C01.reimport", "re-importing the printed features raised %s: %s" % (r3["exc"], r3["msg"]),
                                      kind="reimport_failed", exc=r3["exc"]))
                        ok = False
                    else:
                        d3 = call(node, {"op": "dump", "h": "h3", "relations": False})
                        if d3["ok"]:
                            def norm(f):
                                at = [[k, sorted(v)] for k, v in f["attrs"]] if case["sort_values"] else f["attrs"]
                                return (f["id"], f["cols"], at, f["extra"], f["line"])
                            a = [norm(f) for f in d["dump"]["features"]]
                            b = [norm(f) for f in d3["dump"]["features"]]
                            if a != b or d["dump"]["directives"] != d3["dump"]["directives"]:
                                V.append(viol("C01.reimport", "re-importing the printed features gives a different database", kind="reimport_differs",
                                              fam=d_["fam"]))
                                ok = False
                            else:
                                probes["reimport_equivalent"] = 1
                # two full iterations alive on the one handle, advanced alternately
                if ok and case.get("interleave"):
                    ri = call(node, {"op": "interleave", "h": "h", "queries": [{"m": "all_features"}, {"m": "all_features"}],
                                     "schedule": case["isched"]})
                    want_ids = [f["id"] for f in d["dump"]["features"]]
                    if not ri["ok"]:
                        V.append(viol("C01.once", "two interleaved full iterations raised %s: %s" % (ri["exc"], ri["msg"]), kind="interleave_failed"))
                        ok = False
                    elif ri["outs"][0] != want_ids or ri["outs"][1] != want_ids:
                        V.append(viol("C01.once", "two interleaved full iterations yield %d and %d of %d features" % (
                            len(ri["outs"][0]), len(ri["outs"][1]), len(want_ids)), kind="interleaved_scan"))
                        ok = False
                    else:
                        probes["two_full_scans_interleaved"] = 1
                # a later update written in ANOTHER dialect must not change how the imported lines come back
                if ok and case.get("update_other_dialect") and d_["fam"] != "gff2":
                    if d_["fam"] == "gff3":
                        uline = "chrU\tupd\tgene\t1\t2\t.\t+\t.\tzz=1 ; yy=2" if d_["fsep"] != " ; " else "chrU\tupd\tgene\t1\t2\t.\t+\t.\tzz=1;yy=2;"
                    else:
                        uline = 'chrU\tupd\tgene\t1\t2\t.\t+\t.\tgene_id "UG" ; zz "1"' if d_["fsep"] != " ; " else 'chrU\tupd\tgene\t1\t2\t.\t+\t.\tgene_id "UG"; zz "1";'
                    ukw = {"merge_strategy": "create_unique", "make_backup": False}
                    if d_["fam"] == "gtf":
                        ukw.update({"disable_infer_genes": True, "disable_infer_transcripts": True})
                    ur = call(node, {"op": "update", "h": "h", "data": {"form": "string", "text": uline + "\n"}, "kw": ukw})
                    if ur["ok"]:
                        probes["update_in_other_dialect_before_reopen"] = 1
                        case = dict(case, _extra_tail=1)
                if ok and case.get("failed_update_probe") and not case.get("_extra_tail"):
                    from sim.probes import failed_update_probe
                    ok = failed_update_probe(w, call, node, "h", "a.db", d_["fmt"] == "gtf", V, viol, "C01.once", probes)
                # process death right after the acknowledgement, or a normal exit
                if ok:
                    if case["end"] == "crash":
                        node.kill()
                        probes["crash_exit_after_ack"] = 1
                    else:
                        node.close()
                    obs = w.node()
                    ro = call(obs, {"op": "open", "h": "o", "db": "a.db", "kw": okw})
                    do = call(obs, {"op": "dump", "h": "o", "relations": False}) if ro["ok"] else ro
                    obs.close()
                    if not do["ok"]:
                        V.append(viol("C01.reopen", "fresh process cannot read the database: %s %s" % (do["exc"], do["msg"]), kind="fresh_failed"))
                    else:
                        check_dump(case, lines, do["dump"], V, "fresh process after %s" % case["end"])
                        vantage += 1
                        if do["dump"]["dialect"] != d["dump"]["dialect"]:
                            V.append(viol("C01.reopen", "persisted dialect differs from the importer's", kind="dialect_not_persisted"))
        out["stats"] = w.stats
    out["trace_hash"] = core.digest(journal)
    out["nontrivial"] = len(feats) >= 2 and vantage >= 2
    out["sample"] = {"lines": lines[:4], "dialect": d_, "checklines": case["checklines"], "dbfn": case["dbfn"], "form": case["form"],
                     "keep_order": case["keep_order"], "end": case["end"]}
    return out
