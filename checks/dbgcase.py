"""Debug: run one generated case index (or a replay file) and print its journal."""
import os, sys, json
if os.environ.get("PYTHONHASHSEED") != "0":
    os.environ["PYTHONHASHSEED"] = "0"
    os.execve(sys.executable, [sys.executable] + sys.argv, os.environ)
sys.path.insert(0, os.path.dirname(os.path.dirname(os.path.abspath(__file__))))
from sim import seams, core, runner
seams.install()
import gffutils
cid = sys.argv[1].upper()
check = runner._load_check(cid)
if sys.argv[2].endswith(".json"):
    case = json.load(open(sys.argv[2])); case = case.get("case", case)
else:
    case = runner.make_case(check, cid, int(os.environ.get("VERIF_SEED", "1")), int(sys.argv[2]), sys.argv[3] if len(sys.argv) > 3 else "quick")
import sim.core
orig = sim.core.World.call
def call(self, node, op):
    r = orig(self, node, op)
    o = {k: v for k, v in op.items() if k not in ("data",)}
    rr = {k: v for k, v in r.items() if k not in ("dump", "kinds", "log", "ledger")}
    print("  node%d %s -> %s" % (node.node_id, json.dumps(o)[:300], json.dumps(rr, default=str)[:300]))
    return r
sim.core.World.call = call
out = runner.run_one(check, case)
for v in out["violations"]:
    print("VIOL", runner.sig_key(v), v["detail"][:1500])
