"""
C19 - existing databases are never clobbered; queries never write.

(a) create_db onto a path that already holds a database: force=False must raise and
    leave the file untouched (raw bytes + logical content, seen from outside); force=True
    must give exactly the database a fresh import of the new input gives.  Faults: the
    refused call is made while another handle is open, from the same or a new process,
    and sql-error / crash faults are injected into the refused call.
(b) random sequences of read-style calls (arbitrary arguments, generators consumed fully,
    partially, or abandoned), optionally ending in a crash-exit with generators still
    open: file bytes unchanged, handle not inside a transaction, content seen by a fresh
    process unchanged.
"""
import os

from sim import core
from sim import gen as G
from sim.core import World, raw_dump, logical, file_digest
from sim.node import NodeDied
from sim.runner import viol

ID = "C19"
LEVEL = "exploration"
RULE = ("seeded cases: an existing database (GFF3 or GTF, 2-10 features) + (a) create_db onto it with force False/True, in "
        "the same or a fresh process, with/without another open handle, with sampled sql-error/crash faults in the refused "
        "call; (b) 3-14 read-style calls drawn from 17 methods with random arguments and consumption modes, optional "
        "crash-exit with open generators. distinct = hash of the journal of all op results; non-trivial = the refused call "
        "reached the database file or >=3 reads returned data")
ASSUMPTIONS = ["'no writes' is judged by: database file bytes identical, connection not in a transaction, and the logical "
               "content (features, relations, directives, dialect, counters) read by a fresh process identical"]


def budget(tier):
    if tier == "quick":
        return {"runs": 2000, "wall": 120, "chunk": 8}
    return {"runs": 80000, "wall": 1500, "chunk": 8}


def gen_db(rng):
    if rng.random() < 0.6:
        cfg = {"p_id": 0.85, "p_parent": 0.7, "types": ["gene", "mRNA", "exon", "CDS"], "seqids": ["chr1", "chr2"],
               "pool": [1, 5, 10, 20, 30, 40], "strands": ["+", "-"]}
        r_ = rng.random()
        if r_ < 0.15:
            # explicit ids that look like generated ones (what merge() / the importer would hand out next)
            cfg = dict(cfg, ids=["exon_1", "exon_2", "exon_3", "gene_1", "mRNA_1", "CDS_1"], parents=["gene_1", "mRNA_1", "exon_1"], types=["exon", "exon", "gene", "mRNA", "CDS"])
        feats = G.gff3_batch(rng, rng.randint(2, 10), cfg, unique_ids=True)
        if 0.15 <= r_ < 0.3:
            # a hierarchy of five generations below one gene
            chain = ["a", "b", "c", "d", "e"]
            feats = [f for f in feats if not any(k == "ID" and v[0] in chain for k, v in f["attrs"])]
            for i_, (cid, ft) in enumerate(zip(chain, ["gene", "mRNA", "exon", "exon_part", "sub_part"])):
                attrs = [["ID", [cid]]] + ([["Parent", [chain[i_ - 1]]]] if i_ else [])
                feats.insert(rng.randint(0, len(feats)), G.mf(["chr1", "src", ft, 1 + i_, 40 - i_, ".", "+", "."], attrs))
        return {"fmt": "gff3", "feats": feats, "directives": rng.choice([[], ["gff-version 3"], ["gff-version 3", "species x"]])}
    feats = []
    while not feats:
        feats = G.gtf_annotation(rng, {"max_genes": 2})
    return {"fmt": "gtf", "feats": feats, "directives": rng.choice([[], [], ["gtf-version 2.2"]])}


IDPOOL = G.IDS + ["exon_1", "CDS_1", "G1", "T1", "T2", "nope", "mRNA_1", "gene_1"]
FT = ["gene", "mRNA", "exon", "CDS", "transcript", "nothing"]


def gen_read(rng):
    m = rng.choice(["getitem", "all_features", "features_of_type", "children", "parents", "region", "interfeatures",
                    "create_introns", "create_splice_sites", "merge", "children_bp", "bed12", "count_features_of_type",
                    "featuretypes", "seqids", "iter_by_parent_childs", "dump"])
    op = {"m": m, "args": [], "kw": {}, "consume": rng.choice(["all", "all", 1, 2, 0])}
    if m in ("getitem", "children", "parents", "children_bp", "bed12"):
        op["args"] = [rng.choice(IDPOOL)]
    if m in ("children", "parents") and rng.random() < 0.5:
        op["kw"]["level"] = rng.choice([1, 2, 2, 3, 4])
    if m in ("all_features", "features_of_type", "children", "parents"):
        if m == "features_of_type":
            op["args"] = [rng.choice(FT)]
        elif rng.random() < 0.4:
            op["kw"]["featuretype"] = rng.choice([rng.choice(FT), rng.sample(FT, 2)])
        if rng.random() < 0.4:
            op["kw"]["order_by"] = rng.choice(["start", "end", "seqid", "length", ["seqid", "start"], "featuretype"])
            op["kw"]["reverse"] = rng.random() < 0.5
        if rng.random() < 0.3:
            s, e = G.rand_span(rng, [1, 5, 10, 20, 30, 60])
            op["kw"]["limit"] = rng.choice([["chr1", s, e], "chr1:%d-%d" % (s, e)])
            op["kw"]["completely_within"] = rng.random() < 0.5
        if m in ("all_features", "features_of_type") and rng.random() < 0.3:
            op["kw"]["strand"] = rng.choice(["+", "-", "."])
    if m == "region":
        s, e = G.rand_span(rng, [1, 5, 10, 20, 30, 60])
        r = rng.random()
        if r < 0.4:
            op["kw"]["region"] = ["chr1", s, e]
        elif r < 0.6:
            op["kw"]["region"] = "chr1:%d-%d" % (s, e)
        elif r < 0.8:
            op["kw"].update({"seqid": "chr1", "start": s})
        else:
            op["kw"].update({"seqid": "chr2", "end": e})
        op["kw"]["completely_within"] = rng.random() < 0.5
    if m == "count_features_of_type" and rng.random() < 0.7:
        op["args"] = [rng.choice(FT)]
    if m == "children_bp":
        op["kw"] = {"child_featuretype": rng.choice(["exon", "CDS"]), "merge": rng.random() < 0.5}
    if m == "merge":
        op["sel"] = {"order_by": ["seqid", "start"]}
        if rng.random() < 0.5:
            op["sel"]["featuretype"] = rng.choice(FT)
        if rng.random() < 0.5:
            op["criteria"] = rng.sample(["seqid", "strand", "feature_type", "end_inc", "any_inc", "exact"], 2)
    if m == "interfeatures":
        op["sel"] = {"order_by": ["seqid", "start"]}
        if rng.random() < 0.5:
            op["sel"]["featuretype"] = rng.choice(["exon", "gene"])
        if rng.random() < 0.3:
            op["kw"]["new_featuretype"] = "gap"
    if m in ("create_introns", "create_splice_sites") and rng.random() < 0.4:
        op["kw"] = {"grandparent_featuretype": None, "parent_featuretype": rng.choice(["mRNA", "transcript"])}
    if m == "iter_by_parent_childs":
        op["kw"] = {"featuretype": rng.choice(["gene", "mRNA"])}
    if m == "bed12" and rng.random() < 0.5:
        op["kw"] = {"name_field": rng.choice(["ID", "Name", "transcript_id"])}
    return op


def gen(rng, tier):
    case = {"db": gen_db(rng), "new": gen_db(rng), "form": rng.choice(["path", "string", "list"]),
            "same_node": rng.random() < 0.5, "keep_handle": rng.random() < 0.5,
            "reads": [gen_read(rng) for _ in range(rng.randint(3, 14))],
            "end": rng.choice(["exit", "exit", "crash", "drop"]),
            "refuse_fault": None, "do_a": rng.random() < 0.6, "gc_at": rng.randrange(14),
            "old_state": rng.choice(["as_imported", "as_imported", "as_imported", "emptied", "partly_deleted"]),
            "race": rng.random() < 0.2, "race_seed": rng.getrandbits(32), "live_generator": rng.random() < 0.6,
            "wal_old": rng.random() < 0.15, "prior_import": rng.random() < 0.6, "wal_force_first": rng.random() < 0.5,
            # how the old database was made and how the reading session opens it
            "dialect_given": rng.choice([None, None, None, True, "no_order"]),
            # the reading session starts with a merge_all() that fails part-way on this handle
            "failed_merge_all_first": {"nth": rng.randint(1, 12), "mode": rng.choice(["error", "cancel", "locked"])} if rng.random() < 0.15 else None,
            # a delete() whose iterable fails after k items ran on the handle before the reads (its DELETEs stay uncommitted)
            "failed_delete_first": {"k": rng.choice([1, 1, 2])} if rng.random() < 0.2 else None,
            "open_kw": rng.choice([{}, {}, {"keep_order": True}, {"sort_attribute_values": True},
                                   {"keep_order": True, "sort_attribute_values": True}])}
    r = rng.random()
    if r < 0.3:
        case["refuse_fault"] = {"frac": rng.random(), "mode": rng.choice(["error", "crash", "cancel"])}
    return case


RACE_PARK = ("fs.open", "fs.close", "sql.connect", "commit", "committed", "fs.tmpname")


def _race(case, V, probes, journal, out):
    """Two processes run create_db(force=False) onto the SAME fresh path, released one seam point at
    a time.  Whatever the interleaving: an acknowledged call's database must hold exactly its own
    input (never a mixture), i.e. the later one must have been refused."""
    import random

    rng = random.Random(case["race_seed"])
    inputs = [case["db"], case["new"]]
    sol = []
    for i, inp in enumerate(inputs):
        with World("c19r_") as w0:
            m = w0.node(prelude=False)  # reference: a fresh process
            r = w0.call(m, {"op": "create", "h": "h", "db": "r.db", "data": _src(inp, "path"), "kw": {"merge_strategy": "create_unique"}})
            m.close()
            sol.append(logical(raw_dump(w0.p("r.db"))) if r["ok"] else None)
    if None in sol or sol[0] == sol[1]:
        return
    with World("c19race_") as w:
        ns = [w.node(lockstep_kinds=RACE_PARK) for _ in inputs]
        state = ["unstarted", "unstarted"]
        res = [None, None]
        sched = []
        while any(s in ("unstarted", "parked") for s in state):
            el = [i for i, s in enumerate(state) if s in ("unstarted", "parked")]
            i = rng.choice(el) if rng.random() < 0.7 or not sched or sched[-1] not in el else sched[-1]
            sched.append(i)
            try:
                if state[i] == "unstarted":
                    ns[i].send({"op": "create", "h": "h", "db": "r.db", "data": dict(_src(inputs[i], "path"), name="race%d.gff" % i),
                                "kw": {"merge_strategy": "create_unique"}})
                else:
                    ns[i].send(("go",))
                m = ns[i].recv()
            except NodeDied:
                state[i] = "dead"
                continue
            if m[0] == "park":
                state[i] = "parked"
            else:
                state[i] = "done"
                res[i] = m[1]
        for n in ns:
            n.close()
        journal.append(("race", "".join(map(str, sched)), [r and r["ok"] for r in res]))
        acks = [i for i in (0, 1) if res[i] is not None and res[i]["ok"]]
        probes["race_on_one_path"] = 1
        if len(set(sched)) > 1:
            probes["race_interleaved"] = 1
        if acks:
            try:
                got = logical(raw_dump(w.p("r.db")))
            except Exception as e:
                V.append(viol("C19.race", "database unreadable after racing create_db calls: %r" % (e,), kind="race_unreadable"))
                return
            if len(acks) == 2:
                V.append(viol("C19.race", "two racing create_db(force=False) calls onto one path were both acknowledged (schedule %s)" % (
                    "".join(map(str, sched)),), kind="race_both_acknowledged"))
            elif got != sol[acks[0]]:
                what = [t for t in got if got[t] != sol[acks[0]].get(t)]
                V.append(viol("C19.race", "racing create_db calls: the acknowledged import's database differs from its solitary result in %s "
                              "(schedule %s)" % (what, "".join(map(str, sched))), kind="race_mixed", tables=",".join(what)))
        out["stats"]["nodes"] = out["stats"].get("nodes", 0) + 4


def _dial(d):
    return G.DEFAULT_GFF3 if d["fmt"] == "gff3" else G.DEFAULT_GTF


def _src(d, form):
    spec = G.source_spec(None, d["feats"], form=form, d=_dial(d))
    if "text" in spec and d.get("directives"):
        spec["text"] = "".join("##%s\n" % x for x in d["directives"]) + spec["text"]
    return spec


def run(case):
    out = {"violations": [], "probes": {}, "stats": {}, "digests": set()}
    V = out["violations"]
    probes = out["probes"]
    journal = []
    nontrivial = False
    if not case["db"]["feats"] or not case["new"]["feats"]:
        return out
    with World("c19_") as w:
        def call(n, op):
            r = w.call(n, op)
            rr = dict(r)
            journal.append((op.get("op"), op.get("m"), core.digest(rr)))
            return r

        n = w.node()
        creq = {"op": "create", "h": "h", "db": "a.db", "data": _src(case["db"], "path"), "kw": {"merge_strategy": "create_unique"}}
        if case.get("dialect_given"):
            creq["explicit_dialect"] = case["dialect_given"]  # dialect= stated by the caller (possibly a hand-written, partial one)
            probes["old_database_made_with_explicit_dialect"] = 1
        r = call(n, creq)
        if not r["ok"]:
            out["discarded"] = True
            out["stats"] = w.stats
            return out
        if case.get("old_state") in ("emptied", "partly_deleted"):
            # the existing database may hold few or no features and is still a database
            dd = call(n, {"op": "dump", "h": "h", "relations": False})
            ids = [f["id"] for f in dd["dump"]["features"]] if dd["ok"] else []
            if case["old_state"] == "partly_deleted":
                ids = ids[: max(1, len(ids) // 2)]
            if ids:
                call(n, {"op": "delete", "h": "h", "ids": ids, "form": "strs", "kw": {"make_backup": False}})
                probes["old_database_" + case["old_state"]] = 1
        n.close()  # the creating process ends; a.db is now "an existing database"
        path = w.p("a.db")
        d0 = file_digest(path)
        l0 = logical(raw_dump(path))
        out["digests"].add(core.digest(l0))

        # ------------------------------------------------------------------ (b) reads
        n = w.node()
        r = call(n, {"op": "open", "h": "h", "db": "a.db", "kw": dict(case.get("open_kw") or {})})
        if not r["ok"]:
            V.append(viol("C19.reads", "cannot open the database: %s %s" % (r["exc"], r["msg"]), kind="open_failed"))
        else:
            d_open = file_digest(path)
            if d_open != d0:
                # opening is not a read-style method of the statement: re-baseline, remember it happened
                probes["open_changed_file_bytes"] = 1
                d0 = d_open
            got_data = 0
            crashed = False
            tolerate_txn = False
            fm = case.get("failed_merge_all_first")
            if fm:
                rma = call(n, {"op": "merge_all", "h": "h", "kw": {}, "faults": [{"kind": "sql", "nth": fm["nth"], "mode": fm["mode"]}]})
                if not rma["ok"]:
                    probes["reads_after_failed_merge_all_on_same_handle"] = 1
                st0 = call(n, {"op": "conn_state", "h": "h"})
                tolerate_txn = bool(st0["ok"] and st0["in_transaction"])  # left open by the failed WRITE call: not the reads' doing
                # merge_all is a write: what it stored before failing (or in full) is the content the reads must leave alone
                d0 = file_digest(path)
                l0 = logical(raw_dump(path))
            fd = case.get("failed_delete_first")
            if fd and not fm:
                rows = (raw_dump(path, tables=("features",)).get("features") or [])[:fd["k"]]
                if rows:
                    rdl = call(n, {"op": "delete", "h": "h", "ids": [r_[1] for r_ in rows], "form": "gen_raise", "kw": {"make_backup": False}})
                    if not rdl["ok"] and rdl["exc"] == "SourceError":
                        probes["reads_after_failed_delete_on_same_handle"] = 1
                    st0 = call(n, {"op": "conn_state", "h": "h"})
                    tolerate_txn = bool(st0["ok"] and st0["in_transaction"])  # left open by the failed WRITE call
                    # what the failed delete left in the file (nothing, on this tree) is what the reads must leave alone
                    d0 = file_digest(path)
                    l0 = logical(raw_dump(path))
            for j, rd in enumerate(case["reads"]):
                if j == case.get("gc_at"):
                    call(n, {"op": "gc"})
                op = dict(rd, op="read", h="h")
                last = (j == len(case["reads"]) - 1)
                if last and case["end"] == "crash":
                    # die in the middle of the last read (after its first statement) with generators open
                    op["faults"] = [{"kind": "sql", "nth": 1, "mode": "crash"}, {"kind": "sql", "nth": 0, "mode": "crash"}][:1]
                try:
                    r = call(n, op)
                except NodeDied:
                    crashed = True
                    probes["crash_with_open_generators"] = 1
                    break
                if r["ok"] and r.get("out"):
                    got_data += 1
                st = call(n, {"op": "conn_state", "h": "h"})
                if st["ok"] and st["in_transaction"] and not tolerate_txn:
                    V.append(viol("C19.reads", "after %s the handle is inside a transaction" % rd["m"], kind="in_transaction", m=rd["m"]))
                    break
                dj = file_digest(path)
                if dj != d0:
                    V.append(viol("C19.reads", "read-style call %s%r changed the database file" % (rd["m"], rd.get("kw")),
                                  kind="file_changed", m=rd["m"]))
                    break
            nontrivial = nontrivial or got_data >= 3
            if not crashed and not V:
                # several lazy results alive on the handle at once, advanced alternately: still no write
                gq = [rd for rd in case["reads"] if rd["m"] in ("all_features", "features_of_type", "children", "parents", "region")
                      and not rd.get("region_feature")][:3]
                if len(gq) >= 2:
                    ri = call(n, {"op": "interleave", "h": "h", "queries": [{"m": q["m"], "args": q.get("args") or [], "kw": q.get("kw") or {}} for q in gq],
                                  "schedule": [(i * 7 + j) % len(gq) for i, j in enumerate(range(12))]})
                    st = call(n, {"op": "conn_state", "h": "h"})
                    if file_digest(path) != d0:
                        V.append(viol("C19.reads", "interleaved read-style iterations changed the database file", kind="file_changed", m="interleaved"))
                    elif st["ok"] and st["in_transaction"] and not tolerate_txn:
                        V.append(viol("C19.reads", "after interleaved read-style iterations the handle is inside a transaction", kind="in_transaction",
                                      m="interleaved"))
                    elif ri["ok"]:
                        probes["interleaved_reads"] = 1
            if not crashed:
                if case["end"] == "drop":
                    call(n, {"op": "drop", "h": "h"})
                    call(n, {"op": "gc"})
                n.close()
            # observed by reopening the file afterwards (fresh process)
            l1 = logical(raw_dump(path))
            if l1 != l0:
                what = [t for t in l0 if l1.get(t) != l0[t]]
                V.append(viol("C19.reads", "content changed after read-style calls, tables %s" % what, kind="content_changed",
                              tables=",".join(what)))
            obs = w.node()
            r = call(obs, {"op": "open", "h": "o", "db": "a.db"})
            if r["ok"]:
                r = call(obs, {"op": "dump", "h": "o"})
            obs.close()
            if not r["ok"]:
                V.append(viol("C19.reads", "database unreadable after read-style calls: %s %s" % (r["exc"], r["msg"]),
                              kind="unreadable"))

        # ------------------------------------------------------------------ (a) force
        holder = None
        if case.get("do_a") and not V and case.get("wal_old"):
            # the existing database was switched to WAL journalling (documented option for writing while reading), written
            # to, and its process was killed: a.db-wal / a.db-shm are left next to it
            wn = w.node()
            call(wn, {"op": "open", "h": "old", "db": "a.db", "kw": {"pragmas": {"synchronous": "NORMAL", "journal_mode": "WAL",
                                                                                 "main.page_size": 4096, "main.cache_size": 10000}}})
            wline = ('chrW\twal\tgene\t1\t9\t.\t+\t.\tID=walfeature' if case["db"]["fmt"] == "gff3" else
                     'chrW\twal\tgene\t1\t9\t.\t+\t.\tgene_id "WALG";')
            call(wn, {"op": "update", "h": "old", "data": {"form": "string", "text": wline + "\n"},
                      "kw": {"merge_strategy": "create_unique", "make_backup": False, "disable_infer_genes": True, "disable_infer_transcripts": True}})
            if case.get("wal_force_first", True):
                wn.kill()
            else:
                # the writer stays alive and connected: its write-ahead log is live, part of the old database's content
                holder = wn
                probes["old_database_in_wal_mode_with_live_writer"] = 1
            if os.path.exists(path + "-wal"):
                probes["old_database_in_wal_mode_with_wal_file_left"] = 1
            if case.get("wal_force_first", True) and os.path.exists(path + "-wal"):
                # create_db(force=True) right away, while the write-ahead log of the killed process is still there (any
                # other connection in between would checkpoint and remove it): must equal a fresh import of the new input
                fn = w.node()
                rfq = call(fn, {"op": "create", "h": "y", "db": "a.db", "data": _src(case["new"], case["form"]),
                                "kw": {"merge_strategy": "create_unique", "force": True}})
                if not rfq["ok"]:
                    V.append(viol("C19.force", "create_db(force=True) over a WAL-mode database failed: %s %s" % (rfq["exc"], rfq["msg"]),
                                  kind="force_failed", exc=rfq["exc"], wal=True))
                else:
                    dy = call(fn, {"op": "dump", "h": "y", "relations": False})
                    fn.close()
                    o2 = w.node()
                    call(o2, {"op": "open", "h": "o", "db": "a.db"})
                    dz = call(o2, {"op": "dump", "h": "o", "relations": False})
                    o2.close()
                    with World("c19w_") as w3:
                        m3 = w3.node(prelude=False)  # reference: a fresh process
                        w3.call(m3, {"op": "create", "h": "y", "db": "a.db", "data": _src(case["new"], case["form"]), "kw": {"merge_strategy": "create_unique"}})
                        dref = w3.call(m3, {"op": "dump", "h": "y", "relations": False})
                        m3.close()
                    for name_, dd_ in (("returned handle", dy), ("fresh process", dz)):
                        if dd_["ok"] and dref["ok"] and [f["id"] for f in dd_["dump"]["features"]] != [f["id"] for f in dref["dump"]["features"]]:
                            V.append(viol("C19.force", "create_db(force=True) over a WAL-mode database whose -wal file was left behind: the %s shows %d "
                                          "features, a fresh import %d" % (name_, len(dd_["dump"]["features"]), len(dref["dump"]["features"])),
                                          kind="force_not_fresh", wal=True))
                            break
                    probes["force_over_wal_leftovers"] = 1
                if fn.alive:
                    fn.close()
                out["stats"] = w.stats
                out["trace_hash"] = core.digest(journal)
                out["nontrivial"] = True
                out["sample"] = {"db": G.lines_of(case["db"]["feats"], _dial(case["db"]))[:4], "wal": True}
                return out
        if case.get("do_a") and not V:
            d0 = file_digest(path)
            l0 = logical(raw_dump(path))
            n = w.node()
            if case["keep_handle"]:
                call(n, {"op": "open", "h": "old", "db": "a.db"})
                if case.get("live_generator", True):
                    # ... with a partly consumed result generator (an open cursor on the old file)
                    call(n, {"op": "read", "h": "old", "m": "all_features", "consume": 1})
                    probes["live_generator_on_old_handle"] = 1
            req = {"op": "create", "h": "x", "db": "a.db", "data": _src(case["new"], case["form"]),
                   "kw": {"merge_strategy": "create_unique", "force": False}}
            # fault-free refusal first (also tells how many seam points the refused call has)
            r = call(n, req)
            if r["ok"]:
                V.append(viol("C19.force", "create_db(force=False) onto an existing database did not raise", kind="not_refused"))
            else:
                nontrivial = nontrivial or r["kinds"].get("sql.connect", 0) > 0
                probes["refused"] = 1
            # (with a write-ahead log next to the file, merely connecting may checkpoint it: bytes move, content must not)
            if (file_digest(path) != d0 and not case.get("wal_old")) or logical(raw_dump(path)) != l0:
                V.append(viol("C19.force", "refused create_db(force=False) modified the existing database file", kind="clobbered"))
            rf = case.get("refuse_fault")
            if rf and not V and r["points"] > 0:
                req2 = dict(req, faults=[{"at": min(r["points"] - 1, int(rf["frac"] * r["points"])), "mode": rf["mode"]}])
                died = False
                try:
                    r2 = call(n, req2)
                    if r2["ok"]:
                        V.append(viol("C19.force", "create_db(force=False) under a fault did not raise", kind="not_refused"))
                except NodeDied:
                    died = True
                    probes["crash_in_refused_call"] = 1
                if (file_digest(path) != d0 and not case.get("wal_old")) or logical(raw_dump(path)) != l0:
                    V.append(viol("C19.force", "refused create_db(force=False) + %s fault modified the existing database" % rf["mode"],
                                  kind="clobbered_under_fault", mode=rf["mode"]))
                if died:
                    n = w.node()
                else:
                    call(n, {"op": "gc"})
            if holder is not None:
                holder.close()  # orderly: checkpoints its log
                holder = None
                if logical(raw_dump(path)) != l0:
                    V.append(viol("C19.force", "the old database lost content once its WAL-mode writer closed, after a refused create_db",
                                  kind="clobbered", wal=True))
            if not case["same_node"] and n.alive:
                n.close()
                n = w.node()
            # force=True: exactly the fresh import of the new input
            if not V and n.alive and case.get("prior_import", True):
                # (the same process has just imported another annotation into another database: nothing of it - directives,
                #  dialect, counters - may show up in what follows)
                call(n, {"op": "create", "h": "prior", "db": "prior.db", "data": _src(case["db"], "string"),
                         "kw": {"merge_strategy": "create_unique"}})
                probes["prior_import_in_same_process"] = 1
            if not V:
                r = call(n, {"op": "create", "h": "y", "db": "a.db", "data": _src(case["new"], case["form"]),
                             "kw": {"merge_strategy": "create_unique", "force": True}})
                if not r["ok"]:
                    V.append(viol("C19.force", "create_db(force=True) failed: %s %s" % (r["exc"], r["msg"]), kind="force_failed",
                                  exc=r["exc"]))
                else:
                    rd = call(n, {"op": "dump", "h": "y"})
                    n.close()
                    got = logical(raw_dump(path))
                    with World("c19f_") as w2:
                        m = w2.node(prelude=False)  # reference: a fresh process
                        rr = w2.call(m, {"op": "create", "h": "y", "db": "a.db", "data": _src(case["new"], case["form"]),
                                         "kw": {"merge_strategy": "create_unique"}})
                        rd2 = w2.call(m, {"op": "dump", "h": "y"})
                        m.close()
                        want = logical(raw_dump(w2.p("a.db"))) if rr["ok"] else None
                    if want is None:
                        out["discarded"] = True
                    elif got != want:
                        what = [t for t in want if got.get(t) != want[t]]
                        V.append(viol("C19.force", "create_db(force=True) result differs from a fresh import of the new input in %s" % what,
                                      kind="force_not_fresh", tables=",".join(what)))
                    elif rd["ok"] and rd2["ok"] and rd["dump"] != rd2["dump"]:
                        V.append(viol("C19.force", "handle returned by create_db(force=True) shows content different from a fresh import",
                                      kind="force_handle_differs"))
                    out["digests"].add(core.digest(got))
        out["stats"] = w.stats
    if case.get("race") and not V:
        _race(case, V, probes, journal, out)
    out["trace_hash"] = core.digest(journal)
    out["nontrivial"] = nontrivial
    out["sample"] = {"db": G.lines_of(case["db"]["feats"], _dial(case["db"]))[:4], "reads": case["reads"][:5],
                     "end": case["end"], "force_part": case.get("do_a"), "refuse_fault": case.get("refuse_fault")}
    return out
