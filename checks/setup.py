"""setup_cmd: nothing is built or installed; verify the environment the checks need."""
import os, sys
sys.path.insert(0, os.path.dirname(os.path.dirname(os.path.abspath(__file__))))
import gffutils
assert os.path.realpath(gffutils.__file__).startswith("/repo/"), gffutils.__file__
from sim import core
os.makedirs(core.SCRATCH, exist_ok=True)
p = os.path.join(core.SCRATCH, "probe%d" % os.getpid())
open(p, "w").write("x"); os.unlink(p)
os.makedirs(os.path.join(os.path.dirname(os.path.dirname(os.path.abspath(__file__))), "evidence"), exist_ok=True)
print("setup ok: gffutils from", gffutils.__file__, "scratch", core.SCRATCH)
