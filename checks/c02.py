"""
C02 - GFF3 hierarchy: children/parents are exactly the Parent graph, two levels deep.

Store conformance: the relations table is persisted derived state, built in two phases
(level-1 rows while lines stream in, level-2 rows afterwards through a temp file) by
create_db and again by every update.  The law is checked in every state reached by
import + update histories, read through the returned handle, after reopen, from a fresh
process after restart, with an ENOSPC/EIO fault on the relations temp file (the import
must fail loudly, never lose level-2 rows silently).
"""
import random

from sim import core
from sim import gen as G
from sim.core import World
from sim.model import Model, mf, aget
from sim.node import NodeDied
from sim.runner import viol

ID = "C02"
LEVEL = "exploration"
RULE = ("seeded GFF3 DAGs (depth <= 4, 0-2 parents per feature, shared children, dangling Parent values, shuffled line order) "
        "imported by create_db and extended by 0-3 updates (new children of old parents, new parents of dangling references), "
        "with reopen/restart between steps and optional temp-file faults; every stored x queried for children/parents at level "
        "1, 2, None with featuretype filters. distinct = journal hash; non-trivial = the graph has >= 1 level-2 pair")
ASSUMPTIONS = ["ids unique within a history (collision handling is C05); delete/add_relation histories are judged under C10"]

TYPES = ["gene", "mRNA", "exon", "CDS"]


def budget(tier):
    if tier == "quick":
        return {"runs": 1600, "wall": 120, "chunk": 8}
    return {"runs": 90000, "wall": 1500, "chunk": 8}


def gen_dag(rng, n, start=0, existing=(), dangling=("zz", "yy")):
    """n new nodes; parents drawn from existing + earlier new nodes (acyclic) + dangling names"""
    feats = []
    names = list(existing)
    depth = dict((e, 0) for e in existing)
    for i in range(n):
        name = "n%d" % (start + i)
        k = rng.choice([0, 1, 1, 1, 2, 2, 3])
        ps = []
        for _ in range(k):
            pool = [x for x in names if depth.get(x, 0) < 3] + list(dangling if rng.random() < 0.25 else ())
            if not pool:
                break
            p = rng.choice(pool)
            if p not in ps:
                ps.append(p)
        d = 1 + max([depth.get(p, 0) for p in ps] or [-1])
        depth[name] = d
        names.append(name)
        s, e = G.rand_span(rng, [1, 5, 10, 20, 30, 40])
        attrs = [["ID", [name]]]
        if ps:
            attrs.append(["Parent", ps])
        feats.append(mf(["chr1", "src", TYPES[min(d, 3)] if rng.random() < 0.8 else rng.choice(TYPES), s, e, ".",
                         rng.choice(["+", "-"]), "."], attrs))
    return feats, names


def gen(rng, tier):
    # a minority of long inputs (batch-size / buffer effects in the two-phase relation build)
    base, names = gen_dag(rng, rng.randint(2, 9) if rng.random() > 0.03 else rng.choice([350, 700, 1100]))
    if rng.random() < 0.6:
        rng.shuffle(base)  # children before parents
    if rng.random() < 0.2:
        # the first lines (those the dialect peek will see) spell multi-valued attributes as repeated keys, the later
        # ones as comma lists: the same Parent graph either way
        for i, f in enumerate(base):
            if not any(len(a[1]) > 1 for a in f["attrs"]):
                f["attrs"].append(["Dbxref", ["x:1", "y:2"]])
            if i < 12:
                f["_repeat"] = True
    steps = [{"op": "create", "feats": base, "form": rng.choice(["path", "string", "list", "gen"])}]
    start = max(20, len(base) + 10)
    for _ in range(rng.choice([0, 0, 1, 1, 2, 3])):
        steps.append({"op": rng.choice(["reopen", "restart", "none", "none"])})
        k = rng.randint(1, 4)
        r = rng.random()
        if r < 0.3:
            # define a formerly dangling parent
            attrs0 = [["ID", [rng.choice(["zz", "yy"])]]]
            if rng.random() < 0.6 and names:
                # ... and be the middle link of a chain whose ends are already stored
                attrs0.append(["Parent", [rng.choice([x for x in names if x not in ("zz", "yy")] or ["n0"])]])
            new = [mf(["chr1", "src", "mRNA", 1, 50, ".", "+", "."], attrs0)]
            if new[0]["attrs"][0][1][0] in names:
                new = []
            else:
                names.append(new[0]["attrs"][0][1][0])
            more, names = gen_dag(rng, k - 1, start, names)
            new += more
        else:
            new, names = gen_dag(rng, k, start, names)
        start += 10
        if rng.random() < 0.5:
            rng.shuffle(new)
        if new:
            steps.append({"op": "update", "feats": new, "form": rng.choice(["path", "list", "gen", "iter1", "string"]), "foreign": rng.random() < 0.25})
    if rng.random() < 0.3:
        # re-import some stored lines unchanged with merge_strategy='replace': the graph must stay what it is
        pool_ = [f for st in steps for f in st.get("feats", [])]
        again = [f for f in rng.sample(pool_, min(len(pool_), rng.choice([1, 2, 3])))]
        steps.append({"op": "update", "feats": [dict(f) for f in again], "form": rng.choice(["list", "gen", "path"]), "strategy": "replace"})
    steps.append({"op": rng.choice(["reopen", "restart", "none"])})
    fault = None
    if rng.random() < 0.25:
        wr = [i for i, s in enumerate(steps) if s["op"] in ("create", "update")]
        fault = {"step": rng.choice(wr), "kind": rng.choice(["fs.write", "fs.tmpname", "fs.open", "fs.close", "fs.read", "fs.unlink"]),
                 "nth": rng.choice([0, 0, 1, 2]), "mode": rng.choice(["error", "error", "crash"])}
    memory = fault is None and rng.random() < 0.15
    if memory:
        steps = [st for st in steps if st["op"] not in ("reopen", "restart")]
    return {"steps": steps, "fault": fault, "qseed": rng.getrandbits(32), "memory": memory, "fault_profile": rng.random() < 0.1,
            "fault_seed": rng.getrandbits(32)}


def check_store(model, node, w, call, V, where, qrng, deep=True):
    r = call(node, {"op": "dump", "h": "h"})
    if not r["ok"]:
        V.append(viol("C02.read", "%s: reading failed: %s %s" % (where, r["exc"], r["msg"]), kind="read_failed"))
        return False
    d = r["dump"]
    rv = model.rel_view()
    ids = [f["id"] for f in d["features"]]
    if sorted(ids) != sorted(model.order):
        V.append(viol("C02.store", "%s: stored ids %r != expected %r" % (where, sorted(ids), sorted(model.order)), kind="ids"))
        return False
    for i in ids:
        for k, what in (("c1", "children level=1"), ("c2", "children level=2"), ("p1", "parents level=1"), ("p2", "parents level=2")):
            got, exp = d["rel"][i][k], rv[i][k]
            if got != exp:
                lost = sorted(set(exp) - set(got))
                inv = sorted(set(got) - set(exp))
                V.append(viol("C02.graph", "%s: %s of %s = %r, Parent graph says %r" % (where, what, i, got, exp),
                              kind="lost" if lost and not inv else ("invented" if inv and not lost else "both"), q=k))
                return False
    if not deep:
        return True
    # several children()/parents() generators alive on the one handle, advanced alternately
    if len(ids) >= 2:
        qs = []
        for i in qrng.sample(ids, min(len(ids), qrng.choice([2, 3]))):
            kw = {}
            if qrng.random() < 0.5:
                kw["level"] = qrng.choice([1, 2])
            qs.append({"m": qrng.choice(["children", "parents"]), "args": [i], "kw": kw})
        if qrng.random() < 0.5:
            qs.append(dict(qs[0]))
        alone = []
        for q in qs:
            r = call(node, dict(q, op="read", h="h"))
            alone.append(r["out"] if r["ok"] else None)
        if all(a is not None for a in alone):
            sched = [qrng.randrange(len(qs)) for _ in range(qrng.randint(2, 20))]
            r = call(node, {"op": "interleave", "h": "h", "queries": qs, "schedule": sched})
            if not r["ok"]:
                V.append(viol("C02.interleaved", "%s: interleaved children()/parents() raised %s: %s" % (where, r["exc"], r["msg"]),
                              kind="interleave_failed"))
                return False
            for q, a, b in zip(qs, alone, r["outs"]):
                if sorted(a) != sorted(b):
                    V.append(viol("C02.interleaved", "%s: %s(%r, %r) yields %r while another relation query is being iterated on the handle, "
                                  "%r alone" % (where, q["m"], q["args"][0], q["kw"], b, a), kind="interleaved_differs"))
                    return False
    # level=None union, featuretype filters, each once, never itself, inverse
    for i in qrng.sample(ids, min(len(ids), 4)):
        for m in ("children", "parents"):
            ft = qrng.choice([None, None, qrng.choice(TYPES), qrng.sample(TYPES, 2)])
            kw = {}
            if ft is not None:
                kw["featuretype"] = ft
            if qrng.random() < 0.4:
                kw["order_by"] = qrng.choice(["start", "end", "featuretype"])
            lvl = qrng.choice([None, None, 1, 2])
            if lvl is not None:
                kw["level"] = lvl
            r = call(node, {"op": "read", "h": "h", "m": m, "args": [i], "kw": kw, "full": True})
            if not r["ok"]:
                V.append(viol("C02.read", "%s: %s(%r, %r) raised %s" % (where, m, i, kw, r["exc"]), kind="query_failed", m=m))
                return False
            got = [f["id"] for f in r["out"]]
            base = set(rv[i]["c1" if m == "children" else "p1"]) if lvl in (None, 1) else set()
            if lvl in (None, 2):
                base |= set(rv[i]["c2" if m == "children" else "p2"])
            if ft is not None:
                fts = [ft] if isinstance(ft, str) else ft
                base = set(x for x in base if model.feats[x]["cols"][2] in fts)
            if len(got) != len(set(got)):
                V.append(viol("C02.graph", "%s: %s(%r, %r) returned a feature twice: %r" % (where, m, i, kw, got), kind="duplicate", m=m))
                return False
            if i in got and i not in base:
                V.append(viol("C02.graph", "%s: %s is its own relative in %s(%r)" % (where, i, m, kw), kind="self", m=m))
                return False
            if set(got) != base:
                V.append(viol("C02.graph", "%s: %s(%r, %r) = %r, expected %r" % (where, m, i, kw, sorted(got), sorted(base)),
                              kind="filtered_query", m=m, level=str(lvl), ft=ft is not None))
                return False
    return True


def run(case):
    out = {"violations": [], "probes": {}, "stats": {}, "digests": set()}
    V = out["violations"]
    probes = out["probes"]
    journal = []
    model = Model("gff3")
    qrng = random.Random(case["qseed"])
    fault = case.get("fault")
    with World("c02_") as w:
        def call(n, op):
            r = w.call(n, op)
            journal.append((op["op"], op.get("m"), core.digest({k: v for k, v in r.items() if k != "kinds"})))
            return r

        node = w.node()
        alive = False
        stale_counters = False
        for si, st in enumerate(case["steps"]):
            if V:
                break
            k = st["op"]
            if k == "none":
                continue
            if k == "reopen" and alive:
                call(node, {"op": "drop", "h": "h"})
                call(node, {"op": "gc"})
                r = call(node, {"op": "open", "h": "h", "db": "a.db"})
                check_store(model, node, w, call, V, "after reopen", qrng, deep=False)
                continue
            if k == "restart" and alive:
                node.close()
                node = w.node()
                call(node, {"op": "open", "h": "h", "db": "a.db"})
                check_store(model, node, w, call, V, "after restart", qrng, deep=True)
                continue
            if k not in ("create", "update"):
                continue
            spec = G.source_spec(None, st["feats"], form=st["form"])
            req = {"op": k, "h": "h", "data": spec, "kw": {"merge_strategy": st.get("strategy", "error")}}
            if k == "create":
                req["db"] = ":memory:" if case.get("memory") else "a.db"
                if case.get("memory"):
                    probes["memory_database"] = 1
            else:
                req["kw"]["make_backup"] = False
            this_fault = fault and fault["step"] == si
            if this_fault:
                req["faults"] = [{"kind": fault["kind"], "nth": fault["nth"], "mode": fault["mode"]}]
            pre = model.clone()
            foreign = k == "update" and st.get("foreign") and alive and not case.get("memory") and not this_fault
            if k == "update" and stale_counters and not foreign:
                # (a handle whose id counters went stale behind another writer is reopened before it writes again)
                call(node, {"op": "drop", "h": "h"})
                call(node, {"op": "gc"})
                call(node, {"op": "open", "h": "h", "db": "a.db"})
                stale_counters = False
            try:
                if foreign:
                    # another process updates the file while this handle, which has already answered queries, stays open
                    fn = w.node()
                    call(fn, {"op": "open", "h": "h", "db": "a.db"})
                    r = call(fn, req)
                    fn.close()
                    stale_counters = True
                    probes["updated_by_another_process_while_handle_open"] = 1
                else:
                    r = call(node, req)
            except NodeDied:
                probes["crash_in_import"] = 1
                alive = False
                break
            if not r["ok"]:
                if r.get("injected"):
                    probes["import_failed_loudly_on_tempfile_fault"] = probes.get("import_failed_loudly_on_tempfile_fault", 0) + 1
                    alive = False  # the statement says nothing about the content after a failed import
                    break
                V.append(viol("C02.store", "%s raised %s: %s" % (k, r["exc"], r["msg"]), kind="import_failed", exc=r["exc"]))
                break
            model.import_gff3(st["feats"], strategy=st.get("strategy", "error"))
            if st.get("strategy") == "replace":
                probes["stored_lines_reimported_with_replace"] = 1
            alive = True
            if r.get("fired"):
                # a fault fired but the import was acknowledged: level-2 rows must still be complete
                probes["fault_swallowed_import_acknowledged"] = probes.get("fault_swallowed_import_acknowledged", 0) + 1
            if not check_store(model, node, w, call, V, "after %s #%d" % (k, si), qrng):
                break
            out["digests"].add(core.digest(sorted(model.rel)))
        if alive and not V and node.alive and case.get("memory"):
            node.close()
        elif alive and not V and node.alive:
            # iter_by_parent_childs: [parent] + all children
            r = call(node, {"op": "read", "h": "h", "m": "iter_by_parent_childs", "kw": {"featuretype": "gene"}})
            if r["ok"]:
                for grp in r["out"]:
                    p = grp[0]
                    exp = set(model.children(p))
                    if set(grp[1:]) != exp or len(grp[1:]) != len(exp):
                        V.append(viol("C02.graph", "iter_by_parent_childs: %s -> %r, expected %r" % (p, grp[1:], sorted(exp)), kind="iter_by_parent"))
                        break
            node.close()
            obs = w.node()
            call(obs, {"op": "open", "h": "h", "db": "a.db"})
            check_store(model, obs, w, call, V, "fresh process at end", qrng, deep=False)
            obs.close()
        out["stats"] = w.stats
    if case.get("fault_profile") and not V and not fault and not case.get("memory"):
        # the same import+update history under source failures / sql errors / cancels / crashes inside the updates
        # (relaxed C10-style oracle): the graph law must hold in whatever state the store is left
        from checks import c10
        steps = [dict(s, strategy=s.get("strategy", "error")) for s in case["steps"] if s["op"] in ("create", "update", "reopen", "restart")]
        if len(steps[0].get("feats", [])) <= 40:
            vs, st2, pr2 = c10.fault_profile(steps, {}, case["fault_seed"], "C02.faulted")
            V.extend(vs)
            c10._merge_stats(out["stats"], st2)
            for k2, v2 in pr2.items():
                probes["faulted_" + k2] = probes.get("faulted_" + k2, 0) + v2
            journal.append(("fault_profile", len(vs)))
    out["trace_hash"] = core.digest(journal)
    out["nontrivial"] = any(l == 2 for _, _, l in model.rel)
    out["sample"] = {"steps": [dict(op=s["op"], lines=G.lines_of(s.get("feats", []))[:8], form=s.get("form")) for s in case["steps"]],
                     "fault": fault}
    return out
