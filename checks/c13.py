"""
C13 - all input forms are equivalent; dialect peeking never consumes data; a transform is
applied exactly once per feature; inspect() counts exactly.

The stream protocol under test: DataIterator peeks checklines+1 items to infer the
dialect and must hand every item of a ONE-SHOT source to the consumer exactly once, in
order (peek-and-chain for iterators, re-open for files).  The simulation drives the same
annotation through path / gzip / string / list / generator / one-shot iterator /
DataIterator / FeatureDB forms, for checklines inside, at and beyond the input length,
with instrumented sources (delivery ledger), instrumented transforms (call ledger),
early EOF and source failures at chosen positions.
"""
from sim import core
from sim import gen as G
from sim.core import World, raw_dump, logical
from sim.model import apply_transform, aget
from sim.runner import viol

ID = "C13"
LEVEL = "exploration"
RULE = ("seeded annotations (GFF3/GTF, 1-9 features) x input forms {path, gz, string, list, generator, one-shot iterator, "
        "DataIterator over each, FeatureDB} x checklines in 0..n+2 x transforms {none, identity, modifying, rejecting} x "
        "{early EOF, source failure} positions relative to the peek window; oracles: delivery ledger (each item pulled exactly "
        "once, in order), transform call ledger, equality of the stored database with the path form's, inspect() counts vs an "
        "independent count. distinct = journal hash; non-trivial = a one-shot source with >= 2 items was consumed through a peek")
ASSUMPTIONS = ["one-shot iterator = object with __next__; re-iterables hiding a one-shot iterator behind __iter__ are not generated",
               "printed lines are not compared across forms (only ids, columns, attributes, extra, relations, directives)"]

FORMS = ["path", "gz", "string", "list", "gen", "iter1", "dataiter", "db"]


def budget(tier):
    if tier == "quick":
        return {"runs": 2400, "wall": 120, "chunk": 8}
    return {"runs": 70000, "wall": 1500, "chunk": 8}


def gen(rng, tier):
    fmt = "gff3" if rng.random() < 0.7 else "gtf"
    if fmt == "gff3":
        feats = G.gff3_batch(rng, rng.randint(1, 9) if rng.random() > 0.03 else rng.choice([150, 400, 1050, 2100]), {"p_id": 0.7, "p_parent": 0.5, "seqids": ["chr1", "chr2"],
                                                      "pool": [1, 5, 10, 20, 30], "types": ["gene", "mRNA", "exon"],
                                                      "ids": ["i%d" % k for k in range(3000)] if rng.random() < 0.5 else G.IDS},
                             unique_ids=True)
    else:
        feats = []
        while not feats:
            feats = G.gtf_annotation(rng, {"max_genes": 2})
    if fmt == "gff3" and rng.random() < 0.25:
        # the file mixes the two legal spellings of multi-valued attributes (repeated keys on some lines, comma lists on
        # others) - the same attributes either way - and lines differ in their number of attributes
        for f in feats:
            multi = [a for a in f["attrs"] if len(a[1]) > 1]
            if not multi and rng.random() < 0.5:
                f["attrs"].append(["Dbxref", ["x:1", "y:2"]])
                multi = [f["attrs"][-1]]
            if multi and rng.random() < 0.6:
                f["_repeat"] = True
    if fmt == "gff3" and rng.random() < 0.15:
        for f in feats:
            if rng.random() < 0.3:
                f["cols"][3] = f["cols"][4] = None  # '.' coordinates
    if rng.random() < 0.25:
        # attribute values with characters that are line boundaries for str.splitlines() but not for a file
        for f in feats:
            if rng.random() < 0.5:
                f["attrs"].append(["odd", [rng.choice(["a\u2028b", "x\x85y", "p\u2029q", "v\x1cw"])]])
    raw_eq = False
    if fmt == "gff3" and rng.random() < 0.15:
        raw_eq = True  # '=' inside a value, written unescaped
        for f in feats:
            if rng.random() < 0.6:
                f["attrs"].append(["Note", [rng.choice(["identity=99.5|escore=2e-10", "a=b", "k=v=w"])]])
    if fmt == "gff3" and rng.random() < 0.12:
        # the file starts with features that have no attributes at all (longer than any peek window, sometimes)
        for f in feats[:rng.choice([1, 2, 3, 12])]:
            f["attrs"] = []
    n = len(feats)
    tr = rng.choice([None, None, {"kind": "identity"}, {"kind": "tag", "key": "tag", "val": "x"}, {"kind": "shift", "by": 3},
                     {"kind": "append_inplace", "key": rng.choice(["Name", "Parent", "note"]), "val": "zz"},
                     {"kind": "drop_type", "type": rng.choice(["exon", "gene", "CDS"]), "falsy": rng.choice(["none", "false"])},
                     {"kind": "drop_every", "n": rng.choice([2, 3]), "r": rng.choice([0, 1]),
                      "falsy": rng.choice(["none", "false", "zero", "empty"])}])
    forms = rng.sample(FORMS[1:], 3 if tier == "quick" else 5)
    variants = []
    for f in forms:
        v = {"form": f, "checklines": rng.choice(list(range(0, n + 3)))}
        if f == "dataiter":
            v["inner"] = rng.choice(["path", "gen", "iter1", "string", "list"])
            v["transform_on"] = rng.choice(["dataiter", "create"])
        variants.append(v)
    streams = []
    for _ in range(2):
        s = {"form": rng.choice(["gen", "iter1", "iter1", "path"]), "checklines": rng.choice(list(range(0, n + 3))),
             "passes": 1}
        r = rng.random()
        if r < 0.35:
            s["eof_at"] = rng.randint(0, n)
        elif r < 0.6:
            s["fail_at"] = rng.randint(0, n)
        streams.append(s)
    insp = {"form": rng.choice(["path", "list", "gen", "iter1", "db"]),
            "look_for": rng.sample(["featuretype", "chrom", "attribute_keys", "feature_count", "strand", "source"], rng.randint(1, 4)),
            "limit": rng.choice([None, None, 1, 2, n, n + 1, 0]),
            # the documented default of look_for, and the same question asked twice in one process
            "default_look_for": rng.random() < 0.3, "twice": rng.random() < 0.5, "via_dataiter": rng.random() < 0.5}
    db_delete_at = rng.choice([None, None, 3, 1005])
    if n >= 1000 and rng.random() < 0.7:
        # long source: make sure the "source modified while it is read" scenario is exercised across any internal batching
        tr = None
        db_delete_at = rng.choice([3, 500, 1005])
    return {"fmt": fmt, "raw_eq": raw_eq, "feats": feats, "transform": tr, "checklines": rng.choice([0, 1, 2, 10]), "variants": variants,
            "streams": streams, "inspect": insp,
            "string_extras": {"pair": rng.random() < 0.3, "read_first": rng.random() < 0.5, "torn_then_reimport": rng.random() < 0.2,
                              "short_writes": rng.random() < 0.3, "checklines": rng.choice([0, 1, 10])},
            "db_delete_at": db_delete_at, "gz_members": rng.choice([1, 1, 2, 3]),
            # what real annotation files carry between their feature lines
            "failed_update_probe": rng.random() < 0.2,
            "resume": {"form": rng.choice(["gen", "iter1"]), "at": rng.randint(1, max(1, n)), "checklines": rng.choice([0, 1, 2, 10])}
            if rng.random() < 0.3 else None,
            "reuse": {"inner": rng.choice(["list", "path", "string"]), "at": rng.randint(1, max(1, n)), "checklines": rng.choice([0, 1, 10])}
            if rng.random() < 0.3 else None,
            "noise": rng.choice([None, None, {"directive": True, "comment": 2, "blank": 3, "tail_blank": True},
                                 {"directive": False, "comment": 0, "blank": 2, "tail_blank": False},
                                 {"directive": True, "comment": 1, "blank": 0, "tail_blank": True}])}


def _d(case):
    if case.get("raw_eq"):
        return dict(G.DEFAULT_GFF3, raw_eq=True)
    return G.DEFAULT_GFF3 if case["fmt"] == "gff3" else G.DEFAULT_GTF


def _noisy(text, noise):
    """Directive / comment / blank lines between the feature lines of a text-form input (no feature is added)."""
    if not noise or not text:
        return text
    out = ["##gff-version 3"] if noise.get("directive") else []
    for i, ln in enumerate(text.rstrip("\n").split("\n")):  # not splitlines(): values may hold U+2028 etc.
        if noise.get("comment") and i % (noise["comment"] + 1) == noise["comment"]:
            out.append("# a comment line")
        if noise.get("blank") and i % (noise["blank"] + 1) == noise["blank"]:
            out.append("")
        out.append(ln)
    if noise.get("tail_blank"):
        out += ["", "#end"]
    return "\n".join(out) + "\n"


TEXT_FORMS = ("path", "gz", "string", "existing")


def _spec(case, form, name="in.gff"):
    if form == "gz":
        return {"form": "gz", "text": _noisy(G.render_text(case["feats"], _d(case)), case.get("noise")), "name": name,
                "members": case.get("gz_members", 1)}
    sp = G.source_spec(None, case["feats"], form=form, d=_d(case), name=name)
    if "text" in sp:
        sp["text"] = _noisy(sp["text"], case.get("noise"))
    return sp


KW = {"merge_strategy": "create_unique"}


def _fkey(f):
    c = f["cols"]
    return "%s|%s|%s|%s|%s" % (c[0], c[2], c[3], c[4], ";".join("%s=%s" % (k, ",".join(v)) for k, v in f["attrs"]))


def _strip(dump):
    feats = [{k: v for k, v in f.items() if k not in ("line", "line2")} for f in dump["features"]]
    return {"features": feats, "rel": dump.get("rel"), "directives": dump["directives"], "fmt": dump["dialect"]["fmt"]}


def run(case):
    out = {"violations": [], "probes": {}, "stats": {}}
    V = out["violations"]
    probes = out["probes"]
    feats = case["feats"]
    n = len(feats)
    if n == 0:
        out["discarded"] = True
        return out
    journal = []
    nontrivial = False
    tr = case.get("transform")
    kept = apply_transform(tr, feats)
    with World("c13_") as w:
        def call(node, op):
            r = w.call(node, op)
            journal.append((op["op"], core.digest({k: v for k, v in r.items() if k != "kinds"})))
            return r

        node = w.node()
        # ---- reference: path form
        r = call(node, {"op": "create", "h": "ref", "db": "ref.db", "data": _spec(case, "path", "ref.gff"), "src": "ref",
                        "transform": tr, "kw": dict(KW, checklines=case["checklines"])})
        ref = None
        if not r["ok"]:
            if not kept and r["exc"] in ("EmptyInputError", "ValueError"):
                probes["all_rejected_by_transform"] = 1
            else:
                V.append(viol("C13.forms", "path-form import failed: %s %s" % (r["exc"], r["msg"]), kind="path_failed", exc=r["exc"]))
        else:
            d = call(node, {"op": "dump", "h": "ref"})
            ref = _strip(d["dump"])
            # path form against the generator's own truth: count and transform semantics
            stored = [f for f in ref["features"] if f["cols"][1] != "gffutils_derived"]  # GTF: inferred features aside
            if len(stored) != len(kept):
                V.append(viol("C13.transform", "path form stored %d features, expected %d (transform=%r)" % (
                    len(stored), len(kept), tr), kind="count_vs_transform", form="path"))
            if tr is not None:
                calls = r["ledger"]["calls"]
                if calls != [_fkey(f) for f in feats]:
                    V.append(viol("C13.transform", "transform calls for path form: %d calls for %d features (exactly once each, in order)" % (
                        len(calls), n), kind="transform_calls", form="path"))

        # ---- other forms
        for vi, v in enumerate(case["variants"]):
            if V:
                break
            form = v["form"]
            op = {"op": "create", "h": "v%d" % vi, "db": "v%d.db" % vi, "src": "v%d" % vi, "transform": tr,
                  "kw": dict(KW, checklines=v["checklines"])}
            if form == "dataiter":
                op["data"] = _spec(case, v["inner"], "v%d.gff" % vi)
                op["wrap_dataiter"] = True
                op["transform_on"] = v.get("transform_on", "dataiter")
            elif form == "db":
                # a FeatureDB holding the untransformed annotation as the source
                r0 = call(node, {"op": "create", "h": "srcdb", "db": "srcdb%d.db" % vi, "data": _spec(case, "path", "s%d.gff" % vi),
                                 "kw": dict(KW, disable_infer_genes=True, disable_infer_transcripts=True)})
                if not r0["ok"]:
                    continue
                op["data"] = {"form": "list", "lines": []}
                op["from_db"] = "srcdb"
            else:
                op["data"] = _spec(case, form, "v%d.gff" % vi)
            r = call(node, op)
            inner = v.get("inner", form)
            oneshot = inner in ("gen", "iter1")
            label = form + ("(" + v["inner"] + ")" if form == "dataiter" else "")
            sigform = form if form != "dataiter" else "dataiter/" + v.get("transform_on", "dataiter")
            if not r["ok"]:
                if ref is None:
                    continue
                V.append(viol("C13.forms", "%s form (checklines=%d) failed: %s %s while the path form succeeded" % (
                    label, v["checklines"], r["exc"], r["msg"]), kind="form_failed", form=sigform, exc=r["exc"]))
                continue
            if ref is None:
                V.append(viol("C13.forms", "%s form succeeded while the path form failed" % label, kind="form_succeeded", form=sigform))
                continue
            led = r.get("ledger") or {}
            if oneshot:
                if n >= 2:
                    nontrivial = True
                if led.get("pulled") != list(range(n)):
                    V.append(viol("C13.peek", "one-shot source %s, checklines=%d: items pulled %r, expected each of 0..%d once, in order" % (
                        label, v["checklines"], led.get("pulled"), n - 1), kind="delivery", form=sigform))
                    continue
                if v["checklines"] >= n:
                    probes["peek_window_longer_than_input"] = 1
            if tr is not None and form != "db":
                calls = led.get("calls")
                if calls != [_fkey(f) for f in feats]:
                    V.append(viol("C13.transform", "%s form: transform called %d times for %d features (exactly once each, in order)" % (
                        label, len(calls or []), n), kind="transform_calls", form=sigform))
                    continue
            d = call(node, {"op": "dump", "h": "v%d" % vi})
            got = _strip(d["dump"])
            if case.get("noise") and inner not in TEXT_FORMS:
                got = dict(got, directives=ref["directives"])  # Feature-object forms carry no directive lines
            if got != ref:
                what = [k for k in ref if got[k] != ref[k]]
                V.append(viol("C13.forms", "%s form (checklines=%d) gives a database different from the path form in %s: %d vs %d features" % (
                    label, v["checklines"], what, len(got["features"]), len(ref["features"])), kind="form_differs", form=sigform,
                    what=",".join(what)))

        # ---- one DataIterator object used again: after the user's transform failed once on item k the import is retried with
        #      the same object (force=True), then the object is imported a second time into another file
        ru = case.get("reuse")
        # (in-place, non-idempotent transforms included when the data is text: every pass parses the lines afresh, so each
        #  stored feature is transformed exactly once however often the object was iterated before; with the caller's own
        #  Feature objects in a list a second pass rightly transforms the same objects again)
        if ru and not V and ref is not None and (tr is None or tr["kind"] in ("identity", "tag", "drop_type") or
                                                  (tr["kind"] in ("shift", "append_inplace") and ru["inner"] in ("path", "string"))):
            tr_once = dict(tr or {"kind": "identity"}, raise_once_at=ru["at"])
            r1 = call(node, {"op": "create", "h": "ru", "db": "ru.db", "src": "ru", "data": _spec(case, ru["inner"], "ru.gff"),
                             "wrap_dataiter": True, "transform": tr_once, "transform_on": "dataiter", "keep_data": "ru",
                             "kw": dict(KW, checklines=ru["checklines"])})
            if r1["ok"] and ru["at"] <= n:
                V.append(viol("C13.transform", "the transform raised on item %d of %d and create_db succeeded" % (ru["at"], n),
                              kind="failure_swallowed", form="dataiter/reused"))
            elif not r1["ok"] and not (ru["at"] <= n and r1["exc"] == "SourceError"):
                V.append(viol("C13.forms", "DataIterator(%s) import failed: %s %s" % (ru["inner"], r1["exc"], r1["msg"]), kind="form_failed",
                              form="dataiter/reused", exc=r1["exc"]))
            elif not call(node, {"op": "has", "name": "data/ru"}).get("has"):
                probes["transform_failed_while_the_iterator_was_built"] = 1
            else:
                call(node, {"op": "gc"})
                for db_, kw_, what in (("ru.db", dict(KW, force=True), "retried after the transform failed once"),
                                       ("ru2.db", dict(KW), "imported a second time")):
                    r2 = call(node, {"op": "create", "h": "ru", "db": db_, "src": "ru_", "data": {"form": "list", "lines": []}, "use_data": "ru",
                                     "kw": kw_})
                    if not r2["ok"]:
                        V.append(viol("C13.forms", "the same DataIterator(%s) object %s: %s %s" % (ru["inner"], what, r2["exc"], r2["msg"]),
                                      kind="reuse_failed", inner=ru["inner"], exc=r2["exc"]))
                        break
                    d2 = call(node, {"op": "dump", "h": "ru"})
                    got = _strip(d2["dump"])
                    if case.get("noise") and ru["inner"] not in TEXT_FORMS:
                        got = dict(got, directives=ref["directives"])
                    if got != ref:
                        what2 = [k for k in ref if got[k] != ref[k]]
                        V.append(viol("C13.forms", "the same DataIterator(%s) object %s gives a database different from the path form in %s: %d vs %d "
                                      "features" % (ru["inner"], what, what2, len(got["features"]), len(ref["features"])), kind="reuse_differs",
                                      inner=ru["inner"], what=",".join(what2)))
                        break
                else:
                    probes["dataiterator_object_reused_after_failure_and_again"] = 1
                    if tr is not None and tr["kind"] in ("shift", "append_inplace"):
                        probes["dataiterator_object_reused_with_a_non_idempotent_in_place_transform"] = 1

        # ---- a one-shot source behind a DataIterator whose transform fails once: the caller catches it and reads on
        rs = case.get("resume")
        if rs and not V and n >= 2:
            r = call(node, {"op": "dataiter_resume", "src": "rs", "data": _spec(case, rs["form"], "rs.gff"), "kw": {"checklines": rs["checklines"]},
                            "transform": {"kind": "identity", "raise_once_at": rs["at"]}})
            if r["ok"] and r["failed"]:
                if len(r["first"]) + 1 + len(r["rest"]) != n or r["ledger"]["pulled"] != list(range(n)):
                    V.append(viol("C13.peek", "one-shot %s behind a DataIterator (checklines=%d), transform failing once: %d features before the "
                                  "failure, %d after resuming, of %d (each at most once, the failing one lost)" % (
                                      rs["form"], rs["checklines"], len(r["first"]), len(r["rest"]), n), kind="resume_count", form=rs["form"]))
                else:
                    probes["iteration_resumed_after_transform_failure"] = 1

        # ---- from_string specifics: the temporary copy of the text (its name, its lifetime, how it is written)
        sx = case.get("string_extras") or {}
        text = _noisy(G.render_text(feats, _d(case)), case.get("noise"))
        if not V and ref is not None and sx.get("short_writes"):
            # (buggify) every os.write() on a file in the world is a legal short write
            r = call(node, {"op": "create", "h": "sw", "db": "sw.db", "data": {"form": "string", "text": text}, "transform": tr,
                            "kw": dict(KW, checklines=sx["checklines"]), "short_writes": True})
            if r["ok"]:
                d = call(node, {"op": "dump", "h": "sw"})
                if _strip(d["dump"]) != ref:
                    V.append(viol("C13.forms", "string form under short writes gives %d features, the path form %d" % (
                        len(d["dump"]["features"]), len(ref["features"])), kind="form_differs", form="string/short_writes"))
                if r["kinds"].get("fs.write", 0):
                    probes["string_form_with_short_write_buggify"] = 1
            elif not r.get("injected"):
                V.append(viol("C13.forms", "string form under short writes failed: %s %s" % (r["exc"], r["msg"]), kind="form_failed",
                              form="string/short_writes", exc=r["exc"]))
        if not V and sx.get("pair"):
            r = call(node, {"op": "dataiter_pair", "text": text, "kw": {"checklines": sx["checklines"]}, "read_first": sx["read_first"]})
            if not r["ok"]:
                V.append(viol("C13.forms", "second of two iterators over the same string failed after the first was collected: %s %s" % (
                    r["exc"], r["msg"]), kind="pair_failed", exc=r["exc"]))
            elif len(r["features"]) != n:
                V.append(viol("C13.forms", "second of two iterators over the same string yields %d of %d features" % (len(r["features"]), n),
                              kind="pair_count"))
            else:
                probes["two_iterators_same_string"] = 1
        if not V and ref is not None and sx.get("torn_then_reimport"):
            # a process dies while writing its temporary copy (torn write); a later import of the same text in the
            # same temp dir must not be affected by what it left behind
            victim = w.node()
            try:
                w.call(victim, {"op": "create", "h": "t", "db": "torn.db", "data": {"form": "string", "text": text},
                                "kw": dict(KW), "faults": [{"kind": "fs.write", "nth": 0, "mode": "torn"}]})
                victim.close()
            except Exception:
                probes["torn_temp_copy_left_behind"] = 1
            r = call(node, {"op": "create", "h": "after", "db": "after.db", "data": {"form": "string", "text": text}, "transform": tr,
                            "kw": dict(KW, checklines=case["checklines"])})
            if not r["ok"]:
                V.append(viol("C13.forms", "string form after another process died writing its temp copy failed: %s %s" % (r["exc"], r["msg"]),
                              kind="form_failed", form="string/after_torn", exc=r["exc"]))
            else:
                d = call(node, {"op": "dump", "h": "after"})
                if _strip(d["dump"]) != ref:
                    V.append(viol("C13.forms", "string form after another process died writing its temp copy gives %d features, path form %d" % (
                        len(d["dump"]["features"]), len(ref["features"])), kind="form_differs", form="string/after_torn"))

        # ---- a FeatureDB source that is modified (already delivered features deleted) while it is being read
        if not V and case.get("db_delete_at") is not None and n > case["db_delete_at"] + 2 and tr is None:
            r0 = call(node, {"op": "create", "h": "delsrc", "db": "delsrc.db", "data": _spec(case, "path", "ds.gff"),
                             "kw": dict(KW, disable_infer_genes=True, disable_infer_transcripts=True)})
            if r0["ok"]:
                r = call(node, {"op": "create", "h": "deldst", "db": "deldst.db", "data": {"form": "list", "lines": []}, "from_db": "delsrc",
                                "src": "deldst", "transform": {"kind": "delete_delivered", "h": "delsrc", "at": case["db_delete_at"], "n": 2},
                                "kw": dict(KW, checklines=case["checklines"])})
                if not r["ok"]:
                    V.append(viol("C13.forms", "FeatureDB form with deletions of delivered features failed: %s %s" % (r["exc"], r["msg"]),
                                  kind="form_failed", form="db/modified_while_read", exc=r["exc"]))
                else:
                    d = call(node, {"op": "dump", "h": "deldst", "relations": False})
                    got_n = len([f for f in d["dump"]["features"] if f["cols"][1] != "gffutils_derived"])
                    if got_n != n:
                        V.append(viol("C13.forms", "FeatureDB form: %d of %d features arrived when already delivered features were deleted from "
                                      "the source during the read" % (got_n, n), kind="form_differs", form="db/modified_while_read"))
                    elif (r.get("ledger") or {}).get("deleted_from_source"):
                        probes["source_db_modified_while_read"] = 1

        # ---- the iterator protocol itself, with EOF / failure placed relative to the window
        for si, s in enumerate(case["streams"]):
            if V:
                break
            spec = _spec(case, s["form"], "st%d.gff" % si)
            for k in ("eof_at", "fail_at"):
                if k in s:
                    spec[k] = s[k]
            r = call(node, {"op": "dataiter", "data": spec, "src": "st%d" % si, "kw": {"checklines": s["checklines"]},
                            "passes": 1})
            want_n = n
            if "eof_at" in s and s["form"] != "path":
                want_n = min(n, s["eof_at"])
            if "fail_at" in s and s["fail_at"] <= n - (0 if s["form"] != "path" else 0):
                # a source error must surface, never be swallowed by the peek
                if s["form"] == "path" and s["fail_at"] > n:
                    pass
                elif r["ok"]:
                    V.append(viol("C13.peek", "source failing at item %d of %d (%s, checklines=%d) was swallowed" % (
                        s["fail_at"], n, s["form"], s["checklines"]), kind="failure_swallowed", form=s["form"]))
                else:
                    probes["source_failure_surfaced_" + ("in_peek" if s["fail_at"] <= s["checklines"] else "after_peek")] = 1
                continue
            if not r["ok"]:
                V.append(viol("C13.peek", "iterating %s source raised %s: %s" % (s["form"], r["exc"], r["msg"]), kind="iter_failed",
                              form=s["form"]))
                continue
            got = r["passes"][0]["features"]
            if len(got) != want_n:
                V.append(viol("C13.peek", "%s source with %d items (eof_at=%r), checklines=%d: iteration yielded %d features" % (
                    s["form"], n, s.get("eof_at"), s["checklines"], len(got)), kind="stream_count", form=s["form"]))
                continue
            exp = [_fkey(f) for f in feats[:want_n]]
            gk = ["%s|%s|%s|%s|%s" % (g["cols"][0], g["cols"][2], g["cols"][3], g["cols"][4],
                                      ";".join("%s=%s" % (k, ",".join(vv)) for k, vv in g["attrs"])) for g in got]
            if gk != exp:
                V.append(viol("C13.peek", "%s source, checklines=%d: features reordered/duplicated/altered by the peek" % (
                    s["form"], s["checklines"]), kind="stream_order", form=s["form"]))
                continue
            if s["form"] in ("gen", "iter1"):
                if want_n >= 2:
                    nontrivial = True
                if r["ledger"]["pulled"] != list(range(want_n)):
                    V.append(viol("C13.peek", "one-shot %s: pulled %r, expected 0..%d once each" % (s["form"], r["ledger"]["pulled"], want_n - 1),
                                  kind="delivery", form=s["form"]))
                if "eof_at" in s:
                    rel = "inside" if s["eof_at"] <= s["checklines"] else "beyond"
                    probes["eof_%s_window" % rel] = 1

        # ---- an update of the reference database fails part-way; the same handle is then used as a data source again
        if not V and ref is not None and case.get("failed_update_probe"):
            from sim.probes import failed_update_probe
            failed_update_probe(w, call, node, "ref", "ref.db", case["fmt"] == "gtf", V, viol, "C13.forms", probes)

        # ---- inspect()
        if not V:
            ins = case["inspect"]
            op = {"op": "inspect", "src": "insp", "kw": {"look_for": ins["look_for"]}}
            if ins.get("default_look_for"):
                ins = dict(ins, look_for=["featuretype", "chrom", "attribute_keys", "feature_count"])
                op["kw"] = {}
                probes["inspect_with_default_look_for"] = 1
            if ins["limit"] is not None:
                op["kw"]["limit"] = ins["limit"]
            if ins["form"] == "db":
                r0 = call(node, {"op": "create", "h": "idb", "db": "idb.db", "data": _spec(case, "path", "i.gff"),
                                 "kw": dict(KW, disable_infer_genes=True, disable_infer_transcripts=True)})
                op["data"] = {"form": "list", "lines": []}
                op["from_db"] = "idb"
                base = None
                if r0["ok"]:
                    dd = call(node, {"op": "dump", "h": "idb", "relations": False})
                    base = [{"cols": f["cols"], "attrs": f["attrs"]} for f in dd["dump"]["features"]]
            else:
                op["data"] = _spec(case, ins["form"], "i.gff")
                base = [{"cols": f["cols"], "attrs": f["attrs"]} for f in feats]
            if base is not None:
                via = ins["form"] in ("gen", "iter1") and ins.get("via_dataiter")
                if via:
                    op["via_dataiter"] = True
                r = call(node, op)
                if via and r["ok"]:
                    lim_ = ins["limit"]
                    cnt_ = len(base) if not lim_ else min(len(base), lim_)
                    if r.get("rest_n") != len(base) - cnt_:
                        V.append(viol("C13.inspect", "inspect(limit=%r) of a one-shot %s stream of %d features left %r features for the caller "
                                      "to read on, expected %d" % (lim_, ins["form"], len(base), r.get("rest_n"), len(base) - cnt_),
                                      kind="inspect_consumed", form=ins["form"]))
                    else:
                        probes["read_on_after_inspect_limit"] = 1
                if r["ok"] and ins.get("twice"):
                    r = call(node, op)  # asked again: same answer
                    probes["inspect_asked_twice"] = 1
                lim = ins["limit"]
                cnt = len(base) if not lim else min(len(base), lim)
                if not r["ok"]:
                    V.append(viol("C13.inspect", "inspect raised %s: %s" % (r["exc"], r["msg"]), kind="inspect_failed", exc=r["exc"]))
                else:
                    exp = {"feature_count": cnt}
                    idx = {"featuretype": 2, "chrom": 0, "strand": 6, "source": 1}
                    for lf in ins["look_for"]:
                        if lf == "feature_count":
                            continue
                        c = {}
                        for f in base[:cnt]:
                            if lf == "attribute_keys":
                                for k, _ in f["attrs"]:
                                    c[k] = c.get(k, 0) + 1
                            else:
                                c[f["cols"][idx[lf]]] = c.get(f["cols"][idx[lf]], 0) + 1
                        exp[lf] = c
                    if r["out"] != exp:
                        bad = [k for k in exp if r["out"].get(k) != exp[k]] + [k for k in r["out"] if k not in exp]
                        V.append(viol("C13.inspect", "inspect(look_for=%r, limit=%r) on %s form: wrong %s: got %r expected %r" % (
                            ins["look_for"], lim, ins["form"], bad, {k: r["out"].get(k) for k in bad}, {k: exp.get(k) for k in bad}),
                            kind="inspect_counts", which=",".join(sorted(bad))))
        out["stats"] = w.stats
    out["trace_hash"] = core.digest(journal)
    out["nontrivial"] = nontrivial
    out["sample"] = {"lines": G.lines_of(feats, _d(case))[:5], "transform": tr, "variants": case["variants"],
                     "streams": case["streams"], "inspect": case["inspect"]}
    return out
