"""
C16 - merge() computes the interval union and partitions its inputs (narrowed: geometry is
sampled; the simulated dimension is merge/merge_all as operations on a handle and a store).

Histories on one handle: merge(selection, criteria), merge again on the very objects a
previous call received, children_bp(merge=...), merge_all(groups, exclude_components) as a
write op, gc, reopen, restart, crash-exit right after merge_all.  Oracles: operational
definition of the statement (a feature joins the run exactly when every criterion accepts
(run so far, feature)), independent interval union for the default criteria, partition
law, id freshness across ALL merges on the handle, database file untouched by
merge/children_bp, and the content a fresh process reads after merge_all.
"""
import random

from sim import core
from sim import gen as G
from sim.core import World, file_digest, raw_dump, logical
from sim.model import mf
from sim.node import NodeDied
from sim.runner import viol

ID = "C16"
LEVEL = "exploration"
RULE = ("seeded databases of 2-9 intervals over positions 1..8 (2 seqids x 2 strands x 2 types), histories of 2-6 ops from "
        "{merge(selection order, criteria set incl. thresholds), re-merge of the same objects, children_bp(merge on/off), "
        "merge_all(groups, exclude_components), gc, reopen, restart, crash-exit after merge_all}; distinct = journal hash; "
        "non-trivial = >= 1 merged output with >= 2 children")
ASSUMPTIONS = ["interval geometry is sampled, not enumerated (the statement's 'exhaustively up to 4 intervals over 8 positions' belongs to "
               "another technique)", "explicit IDs of the form <featuretype>_<n> are not generated"]

CRIT = {
    "seqid": lambda a, c: c["seqid"] == a["seqid"],
    "strand": lambda a, c: a["strand"] == c["strand"],
    "feature_type": lambda a, c: a["type"] == c["type"],
    "exact": lambda a, c: c["start"] == a["start"] and c["end"] == a["end"],
    "end_inc": lambda a, c: a["start"] <= c["start"] <= a["end"] + 1,
    "start_inc": lambda a, c: a["start"] <= c["end"] + 1 <= a["end"] + 1,
    "any_inc": lambda a, c: a["start"] <= c["start"] <= a["end"] + 1 or a["start"] <= c["end"] + 1 <= a["end"] + 1,
}
DEFAULT = ["seqid", "end_inc", "strand", "feature_type"]


def crit_fn(spec):
    """-> f(run so far, feature, number of members of the run so far)"""
    g = _crit_fn2(spec)
    if getattr(g, "wants_n", False):
        return g
    return lambda a, c, n, g=g: g(a, c)


def _crit_fn2(spec):
    if isinstance(spec, str):
        return CRIT[spec]
    name, t = spec
    if name == "max_members":
        # a reflexive custom criterion that looks at the run's components
        f = lambda a, c, n: n < t
        f.wants_n = True
        return f
    if name == "end_thr":
        return lambda a, c: a["start"] <= c["start"] <= a["end"] + t
    if name == "start_thr":
        return lambda a, c: a["start"] - t <= c["end"] + 1 <= a["end"] + 1
    if name == "any_thr":
        return lambda a, c: a["start"] - t <= c["end"] + 1 <= a["end"] + 1 or a["start"] <= c["start"] <= a["end"] + t
    raise ValueError(spec)


def budget(tier):
    if tier == "quick":
        return {"runs": 2400, "wall": 120, "chunk": 8}
    return {"runs": 70000, "wall": 1500, "chunk": 8}


def gen_long(rng):
    """> 1000 features so that any internal paging of merge_all over the table it modifies shows"""
    feats = [mf(["chr1", "src", "gene", 1, 8, ".", "+", "."], [["ID", ["g"]]])]
    n = rng.choice([1100, 1300])
    for i in range(n):
        # pairs of overlapping exons on consecutive 'chromosomes': ~n/2 runs of 2 members
        c = "c%04d" % (i // 2)
        s_ = 1 + (i % 2) * 2
        feats.append(mf([c, "src", "exon", s_, s_ + 3, ".", "+", "."], [["ID", ["i%d" % i]]]))
    ops = [{"op": "merge_all", "exclude": rng.random() < 0.5, "groups": None, "criteria": None, "end": "restart", "fault": None}]
    return {"feats": feats, "ops": ops, "long": True}


def gen(rng, tier):
    if rng.random() < 0.004:
        return gen_long(rng)
    n = rng.randint(2, 9)
    feats = []
    two_seq = rng.random() < 0.4
    two_str = rng.random() < 0.4
    two_typ = rng.random() < 0.4
    # a parent so that children_bp has something to sum
    feats.append(mf(["chr1", "src", "gene", 1, 8, ".", "+", "."], [["ID", ["g"]]]))
    via_mrna = rng.random() < 0.3
    if via_mrna:
        # files that list both the transcript and the gene as parents of an exon: related to the gene at two levels, still one child
        feats.append(mf(["chr1", "src", "mRNA", 1, 8, ".", "+", "."], [["ID", ["m"]], ["Parent", ["g"]]]))
    for i in range(n):
        s = rng.randint(1, 8)
        e = rng.randint(s, 8)
        attrs = [["ID", ["i%d" % i]], ["Parent", ["g"] if not via_mrna or rng.random() < 0.4 else ["m", "g"]]]
        feats.append(mf([rng.choice(["chr2", "Chr1"]) if two_seq and rng.random() < 0.5 else "chr1", rng.choice(["src", "alt"]),
                         "CDS" if two_typ and rng.random() < 0.4 else "exon", s, e, ".",
                         rng.choice(["-", "-", ".", "?"]) if two_str and rng.random() < 0.4 else "+", "."], attrs))
    if rng.random() < 0.4:
        # a second gene with children of its own: what children_bp('g') must not count
        feats.append(mf(["chr1", "src", "gene", 1, 8, ".", "+", "."], [["ID", ["g2"]]]))
        for j in range(rng.randint(1, 3)):
            s = rng.randint(1, 8)
            e = rng.randint(s, 8)
            feats.append(mf(["chr1", "src", rng.choice(["exon", "CDS"]), s, e, ".", "+", "."], [["ID", ["j%d" % j]], ["Parent", ["g2"]]]))
    if rng.random() < 0.25:
        # insertion sites: zero-length features written start = end + 1 (a type of their own, never selected for merging)
        feats.append(mf(["chr1", "src", "gene", 1, 8, ".", "+", "."], [["ID", ["g3"]]]))
        for j in range(rng.randint(1, 3)):
            s = rng.randint(2, 8)
            feats.append(mf(["chr1", "src", "insertion_site", s, s - 1 if rng.random() < 0.7 else s, ".", "+", "."], [["ID", ["z%d" % j]], ["Parent", ["g3"]]]))
    ops = []
    merged_all = False
    for _ in range(rng.randint(2, 6)):
        k = rng.choice(["merge", "merge", "merge", "remerge", "children_bp", "merge_all", "gc", "reopen", "restart", "interleave"])
        if k == "merge":
            crit = rng.choice([None, None, DEFAULT, ["seqid", "end_inc"], ["end_inc"], ["seqid", "any_inc", "strand"], ["seqid", "exact"],
                               ["seqid", "start_inc", "feature_type"], ["seqid", ["end_thr", rng.choice([0, 2, 3])], "strand", "feature_type"],
                               ["seqid", ["any_thr", rng.choice([1, 2])]], [],
                               ["seqid", "end_inc", ["max_members", rng.choice([2, 3])]], [["max_members", 2]]])
            order = rng.choice([["seqid", "strand", "featuretype", "start"], ["start"], ["seqid", "start"], ["start", "end"]])
            ops.append({"op": "merge", "criteria": crit, "sel": {"order_by": order, "featuretype": rng.choice([["exon", "CDS"], "exon"])},
                        "save": "m%d" % len(ops)})
        elif k == "remerge":
            prev = [o for o in ops if o["op"] == "merge"]
            if prev:
                p = rng.choice(prev)
                crit2 = p["criteria"] if rng.random() < 0.5 else rng.choice([None, ["seqid", "end_inc"], ["end_inc"], ["seqid", "any_inc", "strand"],
                                                                                 ["seqid", ["end_thr", 3], "strand", "feature_type"], []])
                ops.append({"op": "merge", "criteria": crit2, "reuse": p["save"], "save": "m%d" % len(ops)})
        elif k == "interleave":
            ms = []
            for _ in range(rng.choice([2, 2, 3])):
                ms.append({"criteria": rng.choice([None, None, ["seqid", "end_inc"], ["end_inc"], ["seqid", "any_inc", "strand"]]),
                           "sel": {"order_by": rng.choice([["seqid", "strand", "featuretype", "start"], ["start"]]),
                                   "featuretype": rng.choice([["exon", "CDS"], "exon"])}})
            ops.append({"op": "interleave", "merges": ms, "schedule": [rng.randrange(3) for _ in range(rng.randint(2, 16))]})
        elif k == "children_bp":
            if any(f["cols"][2] == "insertion_site" for f in feats) and rng.random() < 0.4:
                ops.append({"op": "children_bp", "of": "g3", "ftype": "insertion_site", "merge": False})
            else:
                ops.append({"op": "children_bp", "ftype": rng.choice(["exon", "CDS", "exon", ["exon", "CDS"], ["CDS", "exon"]]), "merge": rng.random() < 0.6})
        elif k == "merge_all":
            merged_all = True
            ops.append({"op": "merge_all", "exclude": rng.random() < 0.4, "groups": rng.choice([None, None, [["exon"]], [["exon", "CDS"]], [["exon"], ["CDS"]]]),
                        "criteria": rng.choice([None, None, None, ["seqid", "end_inc", "strand"], ["seqid", "end_inc"], ["seqid", ["end_thr", 2], "strand", "feature_type"]]),
                        "end": rng.choice(["none", "none", "crash", "restart"]),
                        "fault": rng.choice([None, None, None, {"frac": rng.random(), "mode": rng.choice(["error", "cancel", "crash"])}])})
            if ops[-1]["fault"] is None and rng.random() < 0.3:
                ops[-1]["raiser"] = rng.randint(2, 14)  # the caller's own criterion fails on its k-th call
        else:
            ops.append({"op": k})
    return {"feats": feats, "ops": ops}


def model_merge(items, criteria):
    """items: list of dicts (id, seqid, strand, type, start, end) in the given order.
    Returns list of runs (lists of indices)."""
    fns = [crit_fn(c) for c in (DEFAULT if criteria is None else criteria)]
    runs = []
    acc = None
    for i, f in enumerate(items):
        if acc is not None and all(fn(acc, f, len(runs[-1])) for fn in fns):
            runs[-1].append(i)
            acc["start"] = min(acc["start"], f["start"])
            acc["end"] = max(acc["end"], f["end"])
        else:
            runs.append([i])
            acc = dict(f)
    return runs


def union_runs(items):
    """independent interval union per (seqid, strand, type) for start-ordered input"""
    groups = {}
    for i, f in enumerate(items):
        groups.setdefault((f["seqid"], f["strand"], f["type"]), []).append(i)
    out = []
    for key, idxs in groups.items():
        idxs.sort(key=lambda i: items[i]["start"])
        cur = None
        for i in idxs:
            f = items[i]
            if cur is not None and f["start"] <= cur[1] + 1:
                cur[1] = max(cur[1], f["end"])
                cur[2].append(i)
            else:
                cur = [f["start"], f["end"], [i]]
                out.append(cur)
    return sorted((a, b, tuple(sorted(c))) for a, b, c in out)


def _item(fd):
    c = fd["cols"]
    return {"id": fd["id"], "seqid": c[0], "strand": c[6], "type": c[2], "start": c[3], "end": c[4]}


def run(case):
    out = {"violations": [], "probes": {}, "stats": {}, "digests": set()}
    V = out["violations"]
    probes = out["probes"]
    journal = []
    nontrivial = False
    issued = set()
    with World("c16_") as w:
        def call(n, op):
            r = w.call(n, op)
            journal.append((op["op"], op.get("m"), core.digest({k: v for k, v in r.items() if k != "kinds"})))
            return r

        node = w.node()
        r = call(node, {"op": "create", "h": "h", "db": "a.db", "data": G.source_spec(None, case["feats"], form="path"),
                        "kw": {"merge_strategy": "create_unique"}})
        if not r["ok"]:
            out["discarded"] = True
            out["stats"] = w.stats
            return out
        path = w.p("a.db")
        d0 = file_digest(path)
        saved = set()
        stop = False
        for oi, op in enumerate(case["ops"]):
            if stop or V:
                break
            k = op["op"]
            if k == "gc":
                call(node, {"op": "gc"})
            elif k == "reopen":
                call(node, {"op": "drop", "h": "h"})
                call(node, {"op": "gc"})
                call(node, {"op": "open", "h": "h", "db": "a.db"})
                saved = set()
                issued = set()
            elif k == "restart":
                node.close()
                node = w.node()
                call(node, {"op": "open", "h": "h", "db": "a.db"})
                saved = set()
                issued = set()
            elif k == "merge":
                req = {"op": "merge", "h": "h", "criteria": op["criteria"], "save": op["save"]}
                if op.get("reuse"):
                    if op["reuse"] not in saved:
                        continue
                    req["reuse"] = op["reuse"]
                    probes["remerge_same_objects"] = 1
                else:
                    req["sel"] = op["sel"]
                r = call(node, req)
                if not r["ok"]:
                    V.append(viol("C16.merge", "merge(criteria=%r) raised %s: %s" % (op["criteria"], r["exc"], r["msg"]), kind="merge_failed",
                                  exc=r["exc"]))
                    break
                saved.add(op["save"])
                ins = [_item(f) for f in r["inputs_before"]]
                if r["inputs_before"] != r["inputs_after"]:
                    V.append(viol("C16.merge", "merge() modified its input features", kind="inputs_modified"))
                    break
                if file_digest(path) != d0:
                    V.append(viol("C16.merge", "merge() changed the database file", kind="db_changed", op="merge"))
                    break
                runs = model_merge(ins, op["criteria"])
                outs = r["out"]
                # partition law
                got_runs = []
                bad = None
                for o in outs:
                    if o["children"]:
                        got_runs.append(list(o["child_idx"]))
                        if -1 in o["child_idx"]:
                            bad = "a merged output lists a child that is not one of the inputs"
                    else:
                        got_runs.append([o["self_idx"]])
                        if o["self_idx"] == -1:
                            bad = "an output without children is not one of the input objects"
                flat = [i for g in got_runs for i in g]
                if bad or sorted(flat) != list(range(len(ins))):
                    V.append(viol("C16.partition", bad or "inputs are not partitioned by the outputs: %r for %d inputs" % (got_runs, len(ins)),
                                  kind="partition"))
                    break
                if got_runs != runs:
                    V.append(viol("C16.runs", "criteria=%r over %r: runs %r, the statement's rule gives %r" % (
                        op["criteria"], [(f["seqid"], f["strand"], f["type"], f["start"], f["end"]) for f in ins], got_runs, runs),
                        kind="runs_differ", default=op["criteria"] is None or op["criteria"] == DEFAULT))
                    break
                for o, g in zip(outs, got_runs):
                    if len(g) > 1:
                        nontrivial = True
                        s = min(ins[i]["start"] for i in g)
                        e = max(ins[i]["end"] for i in g)
                        if o["cols"][3] != s or o["cols"][4] != e:
                            V.append(viol("C16.extent", "merged output spans %s-%s, its children span %s-%s" % (o["cols"][3], o["cols"][4], s, e),
                                          kind="extent"))
                            break
                        if o["id"] in issued or o["id"] in [f["id"] for f in ins]:
                            V.append(viol("C16.ids", "merged output id %r was already used on this handle" % o["id"], kind="id_reused"))
                            break
                        issued.add(o["id"])
                        if dict((k_, v_) for k_, v_ in o["attrs"]).get("ID") != [o["id"]]:
                            # (read after the whole result was collected: outputs must not share state with later ones)
                            V.append(viol("C16.ids", "merged output %r carries the ID attribute %r" % (o["id"], dict((k_, v_) for k_, v_ in o["attrs"]).get("ID")),
                                          kind="id_attribute"))
                            break
                if V:
                    break
                # default criteria + start-ordered groups: independent union
                if (op["criteria"] is None or op["criteria"] == DEFAULT) and not op.get("reuse") and \
                        op["sel"]["order_by"] == ["seqid", "strand", "featuretype", "start"]:
                    mine = sorted((min(ins[i]["start"] for i in g), max(ins[i]["end"] for i in g), tuple(sorted(g))) for g in got_runs)
                    if mine != union_runs(ins):
                        V.append(viol("C16.union", "default criteria: extents %r differ from the interval union %r" % (mine, union_runs(ins)),
                                      kind="union"))
                        break
                    probes["compared_with_independent_union"] = 1
            elif k == "interleave":
                r = call(node, {"op": "merge_interleave", "h": "h", "merges": op["merges"], "schedule": op["schedule"]})
                if not r["ok"]:
                    V.append(viol("C16.interleaved", "interleaved merge() generators raised %s: %s" % (r["exc"], r["msg"]),
                                  kind="interleave_failed", exc=r["exc"]))
                    break
                seen_here = set()
                for q, ins_, outs in zip(op["merges"], r["inputs"], r["outs"]):
                    ins = [_item(f) for f in ins_]
                    runs = model_merge(ins, q["criteria"])
                    idx_of = dict((f["id"], i) for i, f in enumerate(ins))
                    got_runs = [[idx_of.get(c, -1) for c in o["children"]] if o["children"] else [idx_of.get(o["id"], -1)] for o in outs]
                    if got_runs != runs:
                        V.append(viol("C16.interleaved", "a merge() consumed alternately with another one yields runs %r, alone it yields %r" % (
                            got_runs, runs), kind="interleaved_runs"))
                        break
                    for o in outs:
                        if o["children"]:
                            nontrivial = True
                            if o["id"] in issued or o["id"] in seen_here or o["id"] in idx_of:
                                V.append(viol("C16.ids", "merged output id %r handed out twice on one handle (two merge() generators alive)" % o["id"],
                                              kind="id_reused_interleaved"))
                                break
                            seen_here.add(o["id"])
                    if V:
                        break
                issued |= seen_here
                if len(set(x % len(op["merges"]) for x in op["schedule"])) > 1:
                    probes["merge_generators_interleaved"] = 1
                if file_digest(path) != d0:
                    V.append(viol("C16.merge", "merge() changed the database file", kind="db_changed", op="merge"))
                    break
            elif k == "children_bp":
                d = call(node, {"op": "dump", "h": "h"})
                if not d["ok"]:
                    break
                of = op.get("of", "g")
                kids = [f for f in d["dump"]["features"] if f["id"] in set(d["dump"]["rel"].get(of, {}).get("c1", []) + d["dump"]["rel"].get(of, {}).get("c2", []))
                        and f["cols"][2] in (op["ftype"] if isinstance(op["ftype"], list) else [op["ftype"]])]
                r = call(node, {"op": "read", "h": "h", "m": "children_bp", "args": [of], "kw": {"child_featuretype": op["ftype"], "merge": op["merge"]}})
                if of not in d["dump"]["rel"]:
                    continue
                if not r["ok"]:
                    V.append(viol("C16.children_bp", "children_bp raised %s: %s" % (r["exc"], r["msg"]), kind="children_bp_failed"))
                    break
                if op["merge"]:
                    if len(set((f["cols"][0], f["cols"][6], f["cols"][2]) for f in kids)) > 1:
                        continue  # union across strands/seqids/types is not what the shipped criteria merge
                    cov = set()
                    for f in kids:
                        cov.update(range(f["cols"][3], f["cols"][4] + 1))
                    exp = len(cov)
                else:
                    exp = sum(f["cols"][4] - f["cols"][3] + 1 for f in kids)
                if r["out"] != exp:
                    V.append(viol("C16.children_bp", "children_bp(merge=%s) = %r, expected %r" % (op["merge"], r["out"], exp), kind="children_bp",
                                  merge=op["merge"]))
                    break
                if file_digest(path) != d0:
                    V.append(viol("C16.merge", "children_bp() changed the database file", kind="db_changed", op="children_bp"))
                    break
            elif k == "merge_all":
                pre = call(node, {"op": "dump", "h": "h"})
                if not pre["ok"]:
                    break
                pre = pre["dump"]
                kw = {"exclude_components": op["exclude"]}
                if op["groups"] is not None:
                    kw["featuretypes_groups"] = op["groups"]
                mreq = {"op": "merge_all", "h": "h", "kw": kw, "criteria": op.get("criteria")}
                flt = op.get("fault") if op["exclude"] else None
                flt2 = op.get("fault") if (not op["exclude"] and (op.get("fault") or {}).get("mode") in ("error", "cancel")) else None
                r_done = None
                if op.get("raiser") and not flt and not flt2:
                    # a merge criterion supplied by the caller raises part-way; the caller catches it and carries on.  Whatever
                    # merge_all managed to store by then, "stored" means stored: the handle that ran it must show exactly what
                    # a fresh process finds in the file (no merged feature / relation living only in its open transaction)
                    base = op.get("criteria") or ["seqid", "end_inc", "strand", "feature_type"]
                    fr = call(node, dict(mreq, criteria=[["raise_after", op["raiser"]]] + list(base)))
                    if not fr["ok"] and fr["exc"] == "RuntimeError" and "criterion failed" in fr["msg"]:
                        probes["criterion_raises_inside_merge_all"] = 1
                        mine = call(node, {"op": "dump", "h": "h"})
                        obs = w.node(prelude=False)
                        call(obs, {"op": "open", "h": "o", "db": "a.db"})
                        theirs = call(obs, {"op": "dump", "h": "o"})
                        obs.close()
                        if mine["ok"] and theirs["ok"]:
                            a = set(f["id"] for f in mine["dump"]["features"])
                            b = set(f["id"] for f in theirs["dump"]["features"])
                            if a != b:
                                probes["criterion_raises_inside_merge_all_after_a_stored_run"] = 1
                                V.append(viol("C16.merge_all", "after merge_all left by the caller's failing criterion the handle lists features %r "
                                              "that a fresh process does not find in the file (and misses %r)" % (sorted(a - b)[:4], sorted(b - a)[:4]),
                                              kind="merge_all_not_stored_after_callback_error", exclude=op["exclude"]))
                                break
                            if mine["dump"]["rel"] != theirs["dump"]["rel"] or mine["dump"]["features"] != theirs["dump"]["features"]:
                                V.append(viol("C16.merge_all", "after merge_all left by the caller's failing criterion the handle and a fresh "
                                              "process disagree on relations / columns", kind="merge_all_not_stored_after_callback_error",
                                              exclude=op["exclude"], what="relations"))
                                break
                            if len(a) != len(pre["features"]):
                                probes["criterion_raises_inside_merge_all_after_a_stored_run"] = 1
                        elif mine["ok"] != theirs["ok"]:
                            V.append(viol("C16.merge_all", "after merge_all left by the caller's failing criterion: handle readable=%s, fresh "
                                          "process readable=%s" % (mine["ok"], theirs["ok"]), kind="merge_all_not_stored_after_callback_error"))
                            break
                        stop = True
                        continue
                    r_done = fr
                if flt2:
                    # merge_all without exclude_components commits run by run; after an error/cancel part-way the SAME handle
                    # is used again: ids it hands out next must not be ids of features that were stored before the failure
                    with World("c16t_") as w2:
                        import shutil as _sh
                        _sh.copy(path, w2.p("a.db"))
                        t = w2.node()
                        w2.call(t, {"op": "open", "h": "h", "db": "a.db"})
                        tr = w2.call(t, dict(mreq))
                        t.close()
                    if tr["ok"] and len(tr["out"]) >= 2 and tr["points"] > 4:
                        fr = call(node, dict(mreq, faults=[{"at": min(tr["points"] - 1, int(flt2["frac"] * tr["points"])), "mode": flt2["mode"]}]))
                        if not fr["ok"] and fr.get("injected"):
                            probes["fault_inside_merge_all_then_same_handle"] = 1
                            call(node, {"op": "gc"})
                            st_ = call(node, {"op": "conn_state", "h": "h"})
                            dd = call(node, {"op": "dump", "h": "h"})
                            if dd["ok"]:
                                stored = set(f["id"] for f in dd["dump"]["features"])
                                mr = call(node, {"op": "merge", "h": "h", "criteria": ["seqid", "end_inc"], "sel": {"order_by": ["seqid", "start"]}, "save": "after_fault"})
                                if mr["ok"]:
                                    for o in mr["out"]:
                                        if o["children"] and o["id"] in stored:
                                            V.append(viol("C16.ids", "after a failed merge_all the handle hands out id %r, which a feature stored before the "
                                                          "failure already carries" % o["id"], kind="id_reused_after_failed_merge_all", mode=flt2["mode"]))
                                            break
                            stop = True
                            continue
                        r_done = fr
                if flt:
                    # fault-free twin first (tells the number of seam points and the expected runs), in a scratch copy
                    with World("c16t_") as w2:
                        import shutil as _sh
                        _sh.copy(path, w2.p("a.db"))
                        t = w2.node()
                        w2.call(t, {"op": "open", "h": "h", "db": "a.db"})
                        tr = w2.call(t, dict(mreq))
                        t.close()
                    if tr["ok"] and tr["out"] and tr["points"] > 2:
                        mreq["faults"] = [{"at": min(tr["points"] - 1, int(flt["frac"] * tr["points"])), "mode": flt["mode"]}]
                        died = False
                        try:
                            fr = call(node, mreq)
                        except NodeDied:
                            died = True
                            fr = {"ok": False, "injected": True}
                        if not fr["ok"] and (died or fr.get("injected")):
                            probes["fault_inside_merge_all"] = 1
                            if not died:
                                node.kill()
                            # the handle is discarded; what a fresh process finds must consist of whole runs only:
                            # per run either the merged feature is stored and all members are gone, or nothing happened
                            obs = w.node()
                            call(obs, {"op": "open", "h": "o", "db": "a.db"})
                            post = call(obs, {"op": "dump", "h": "o"})
                            obs.close()
                            if not post["ok"]:
                                V.append(viol("C16.merge_all", "database unreadable after a fault inside merge_all: %s" % post["msg"], kind="unreadable"))
                                break
                            pids = set(f["id"] for f in post["dump"]["features"])
                            pre_ids = set(f["id"] for f in pre["features"])
                            new_ids = pids - pre_ids
                            applied = 0
                            for o in tr["out"]:
                                members = set(o["children"])
                                gone = members - pids
                                if gone and gone != members:
                                    V.append(viol("C16.merge_all", "after a %s inside merge_all(exclude_components=True) a run is half applied: members %r, "
                                                  "still stored %r" % (flt["mode"], sorted(members), sorted(members & pids)), kind="half_applied_run", mode=flt["mode"]))
                                    break
                                if gone:
                                    applied += 1
                            if not V and len(new_ids) != applied:
                                V.append(viol("C16.merge_all", "after a %s inside merge_all(exclude_components=True): %d merged features stored but %d runs "
                                              "had their members removed" % (flt["mode"], len(new_ids), applied), kind="half_applied_run", mode=flt["mode"]))
                            stop = True
                            continue
                        r = fr
                    else:
                        r = call(node, mreq)
                elif r_done is not None:
                    r = r_done
                else:
                    r = call(node, mreq)
                if not r["ok"]:
                    V.append(viol("C16.merge_all", "merge_all(%r) raised %s: %s" % (kw, r["exc"], r["msg"]), kind="merge_all_failed", exc=r["exc"],
                                  exclude=op["exclude"]))
                    break
                # expected runs per featuretype group, in merge_all's own order
                exp_new = []
                groups = op["groups"] if op["groups"] is not None else [None]
                byid = dict((f["id"], f) for f in pre["features"])
                for grp in groups:
                    sel = [f for f in pre["features"] if grp is None or f["cols"][2] in grp]
                    sel.sort(key=lambda f: (f["cols"][0], f["cols"][2], f["cols"][6], f["cols"][3]))
                    items = [_item(f) for f in sel]
                    for g in model_merge(items, op.get("criteria")):
                        if len(g) > 1:
                            exp_new.append(sorted(items[i]["id"] for i in g))
                got_new = sorted(sorted(o["children"]) for o in r["out"])
                if got_new != sorted(exp_new):
                    V.append(viol("C16.merge_all", "merge_all(%r) merged %r, the statement's rule gives %r" % (kw, got_new, sorted(exp_new)),
                                  kind="merge_all_runs", exclude=op["exclude"], grouped=op["groups"] is not None))
                    break
                for o in r["out"]:
                    if o["id"] in issued or o["id"] in byid:
                        V.append(viol("C16.ids", "merge_all output id %r already in use" % o["id"], kind="id_reused_merge_all"))
                        break
                    issued.add(o["id"])
                if V:
                    break
                if r["out"]:
                    nontrivial = True
                    probes["merge_all_stored"] = 1
                if op["end"] == "crash":
                    node.kill()
                    probes["crash_exit_after_merge_all"] = 1
                    node = w.node()
                    saved = set()
                    issued = set()
                    call(node, {"op": "open", "h": "h", "db": "a.db"})
                elif op["end"] == "restart":
                    node.close()
                    node = w.node()
                    saved = set()
                    issued = set()
                    call(node, {"op": "open", "h": "h", "db": "a.db"})
                # as read by a fresh process
                obs = w.node()
                call(obs, {"op": "open", "h": "o", "db": "a.db"})
                post = call(obs, {"op": "dump", "h": "o"})
                obs.close()
                if not post["ok"]:
                    V.append(viol("C16.merge_all", "database unreadable after merge_all: %s" % post["msg"], kind="unreadable"))
                    break
                post = post["dump"]
                pids = set(f["id"] for f in post["features"])
                members = set(i for o in r["out"] for i in o["children"])
                exp_ids = set(byid) | set(o["id"] for o in r["out"])
                if op["exclude"]:
                    exp_ids -= members
                if pids != exp_ids:
                    V.append(viol("C16.merge_all", "after merge_all(exclude_components=%s) a fresh process sees ids %r, expected %r" % (
                        op["exclude"], sorted(pids), sorted(exp_ids)), kind="merge_all_store", exclude=op["exclude"],
                        lost=bool(exp_ids - pids), extra=bool(pids - exp_ids)))
                    break
                if not op["exclude"]:
                    for o in r["out"]:
                        c1 = post["rel"][o["id"]]["c1"]
                        if sorted(c1) != sorted(o["children"]):
                            V.append(viol("C16.merge_all", "members of %s are %r but its level-1 children are %r" % (o["id"], sorted(o["children"]), c1),
                                          kind="merge_all_relations"))
                            break
                        mfeat = [f for f in post["features"] if f["id"] == o["id"]][0]
                        s = min(byid[i]["cols"][3] for i in o["children"])
                        e = max(byid[i]["cols"][4] for i in o["children"])
                        if mfeat["cols"][3] != s or mfeat["cols"][4] != e:
                            V.append(viol("C16.extent", "stored merged feature %s spans %s-%s, members span %s-%s" % (
                                o["id"], mfeat["cols"][3], mfeat["cols"][4], s, e), kind="extent_stored"))
                            break
                d0 = file_digest(path)
                out["digests"].add(core.digest(sorted(pids)))
        out["stats"] = w.stats
    out["trace_hash"] = core.digest(journal)
    out["nontrivial"] = nontrivial
    if case.get("long"):
        probes["merge_all_over_more_than_1000_features"] = 1
    out["sample"] = {"lines": G.lines_of(case["feats"])[:6], "ops": case["ops"]}
    return out
