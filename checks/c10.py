"""
C10 - update/delete histories leave exactly the modelled content; ids never recycle;
the backup holds the complete pre-operation database even if the operation fails.

Workload : a file database, then a history over {update(strategy, form), delete,
           add_relation, reopen, restart, gc}.
Faults   : the feature source of an update fails at EVERY position (enumerated, the
           property's own quantifier); sampled sql-error / cancel / crash at seam points
           of update/delete/add_relation (incl. between the commits of one update);
           failing backup copy; GC timing.
Oracle   : reference model after every acknowledged op (in-node handle, fresh observer
           process, raw read-only connection); after a failed op the store must be the
           pre-state or pre-state + a prefix of the arrivals; id ledger; .bak == pre-op
           database in every outcome; bounded liveness after faults stop.
"""
import copy
import os

from sim import core
from sim import gen as G
from sim.core import World, raw_dump, logical
from sim.model import Model, ModelError, Undefined, diff_store, AUTO_RE, aget
from sim.node import NodeDied
from sim.runner import viol

ID = "C10"
LEVEL = "fault_enumeration"
RULE = ("seeded histories over {update x 5 strategies x 5 input forms, delete, add_relation, reopen, restart, gc} on a "
        "file database over a 6-id alphabet; for each history the fault-free run plus one variant run per source-failure "
        "position of its updates (enumerated) and sampled sql-error/cancel/crash points; a run is distinct by the hash of "
        "its full event journal (every op result and seam-point log) and non-trivial when it executed >=1 write op and "
        ">=1 non-empty model comparison")
ASSUMPTIONS = [
    "id-recycling is judged for fault-free histories and source failures (the property's fault quantifier); after "
    "sql-error/cancel/crash faults only state membership, backup equality and liveness are judged",
    "two live handles never both write (the statement's alphabet is sequential close/reopen)",
]

STRATS = ["error", "warning", "replace", "create_unique", "merge"]
FORMS = ["list", "gen", "iter1", "path", "string"]


def budget(tier):
    if tier == "quick":
        return {"runs": 400, "wall": 120, "chunk": 5}
    return {"runs": 40000, "wall": 1500, "chunk": 8}


# ----------------------------------------------------------------------------- generation


def gen_case(rng, tier):
    thorough = tier == "thorough"
    cfg = {"fmf": [], "keep_order": rng.random() < 0.5}
    if rng.random() < 0.3:
        cfg["fmf"] = rng.sample(["source", "score", "strand", "frame"], rng.choice([1, 1, 2]))
    fcfg = {
        "p_id": rng.choice([0.5, 0.7, 0.9]),
        "p_parent": rng.choice([0.3, 0.5, 0.7]),
        "types": rng.choice([["gene", "mRNA", "exon"], ["exon", "CDS"], ["gene", "mRNA", "exon", "CDS"]]),
        "seqids": ["chr1"] if rng.random() < 0.6 else ["chr1", "chr2"],
        "sources": ["src", "alt"] if (cfg["fmf"] or rng.random() < 0.3) else ["src"],
        "strands": ["+", "-"],
        "pool": [1, 5, 10, 20, 30] if rng.random() < 0.7 else G.coord_pool(rng),
    }
    ops = []
    base = G.gff3_batch(rng, rng.randint(1, 6), fcfg, unique_ids=True)
    ops.append({"op": "create", "feats": base, "form": rng.choice(["path", "list", "string"]),
                "kw": {"merge_strategy": "error"}})
    n_ops = rng.randint(2, 9 if not thorough else 12)
    w = {"update": 6, "delete": 2, "add_relation": 2, "reopen": 1.5, "restart": 1, "gc": 0.5}
    names = list(w)
    weights = [w[k] for k in names]
    idpool = G.IDS + ["exon_1", "gene_1", "mRNA_1", "exon_2", "CDS_1", "zz"]
    for _ in range(n_ops):
        k = rng.choices(names, weights)[0]
        if k == "update":
            n = rng.choice([0, 1, 1, 2, 2, 3, 4, 6])
            feats = G.gff3_batch(rng, n, fcfg)
            earlier = [f for o in ops for f in (o.get("feats") or []) if any(a[0] == "ID" for a in f["attrs"])]
            for f in feats:
                if earlier and rng.random() < 0.25:
                    # the same record arriving again (equal columns and ID) with other attributes: what 'merge' really merges
                    e0 = rng.choice(earlier)
                    f["cols"] = list(e0["cols"])
                    f["attrs"] = [a for a in f["attrs"] if a[0] != "ID"]
                    f["attrs"].insert(0, ["ID", list([a for a in e0["attrs"] if a[0] == "ID"][0][1])])
            strat = rng.choice(STRATS)
            kw = {"merge_strategy": strat}
            if rng.random() < 0.35:
                kw["make_backup"] = False
            if rng.random() < 0.85:
                kw["checklines"] = rng.choice([0, 0, 0, 1, 1, 2, 10])
            if strat == "merge" and cfg["fmf"]:
                kw["force_merge_fields"] = list(cfg["fmf"])
            ops.append({"op": "update", "feats": feats, "form": rng.choice(FORMS), "kw": kw, "other_dialect": rng.random() < 0.12})
            if feats and rng.random() < 0.12:
                # the very same update applied a second time (a job run twice), possibly after a reopen
                if rng.random() < 0.4:
                    ops.append({"op": "reopen", "keep_reader": False})
                ops.append(copy.deepcopy(ops[-1] if ops[-1]["op"] == "update" else ops[-2]))
        elif k == "delete":
            ids = rng.sample(idpool, rng.choice([1, 1, 2]))
            form = rng.choice(["str", "strs", "feature", "features", "gen"]) if len(ids) == 1 else rng.choice(["strs", "features", "gen"])
            kw = {}
            if rng.random() < 0.35:
                kw["make_backup"] = False
            ops.append({"op": "delete", "ids": ids, "form": form, "kw": kw})
        elif k == "add_relation":
            p, c = rng.sample(idpool[:9], 2)
            ops.append({"op": "add_relation", "parent": p, "child": c, "level": rng.choice([1, 1, 2]),
                        "child_func": rng.choice([None, None, "set_parent", "assign_child", "raise"]),
                        "as_feature": rng.random() < 0.3})
        elif k == "reopen":
            ops.append({"op": "reopen", "keep_reader": rng.random() < 0.3})
        elif k == "restart":
            ops.append({"op": "restart"})
        else:
            ops.append({"op": "gc"})
    # variants: every source position of (some / all) updates + sampled seam-point faults
    variants = []
    upd = [j for j, o in enumerate(ops) if o["op"] == "update" and o["feats"]]
    chosen = upd if thorough else (rng.sample(upd, min(len(upd), 2)) if upd else [])
    for j in chosen:
        o = ops[j]
        if o["form"] in ("gen", "iter1", "path"):
            forms = [o["form"]]
        else:
            forms = [rng.choice(["gen", "iter1", "path"])]
        for f in forms:
            for k in range(len(o["feats"]) + 1):
                variants.append({"at_op": j, "fault": {"src": k, "form": f}, "nogc_probe": False})
    wr = [j for j, o in enumerate(ops) if o["op"] in ("update", "delete", "add_relation") and j > 0]
    for _ in range(3 if not thorough else 8):
        if not wr:
            break
        j = rng.choice(wr)
        variants.append({"at_op": j, "fault": {"frac": rng.random(), "mode": rng.choice(["error", "crash", "cancel", "crash"])},
                         "nogc_probe": False})
    if wr and rng.random() < 0.5:
        j = rng.choice(wr)
        variants.append({"at_op": j, "fault": {"kind": rng.choice(["commit", "committed", "fs.copy", "fs.copied", "fs.unlink"]),
                                               "nth": rng.choice([0, 0, 1, 2]), "mode": rng.choice(["error", "crash"])}})
    if upd:
        variants.append({"at_op": rng.choice(upd), "fault": {"kind": "sql", "nth": rng.randint(0, 9), "mode": rng.choice(["error", "locked", "cancel"])}})
    return {"cfg": cfg, "ops": ops, "variants": variants}


def gtf_feat(rng):
    g = rng.choice(["G1", "G2"])
    t = rng.choice(["T1", "T2", "T3"])
    ft = rng.choice(["exon", "exon", "CDS", "transcript", "gene", "start_codon"])
    s_, e_ = G.rand_span(rng, [1, 5, 10, 20, 30])
    cols = ["chr1", rng.choice(["src", "src", "alt"]), ft, s_, e_, ".", rng.choice(["+", "+", "-"]), "."]
    attrs = [["gene_id", [g]]]
    if ft != "gene":
        attrs.append(["transcript_id", [t]])
    if rng.random() < 0.4:
        attrs.append(["tag", rng.sample(["x", "y", "z"], rng.choice([1, 2]))])
    return G.mf(cols, attrs)


def gen_gtf_case(rng, tier):
    """The same alphabet of operations on a GTF database (explicit gene/transcript lines collide on their ids;
    everything else gets auto-generated keys)."""
    cfg = {"fmf": rng.sample(["source", "strand"], 1) if rng.random() < 0.3 else [], "keep_order": rng.random() < 0.5, "fmt": "gtf"}
    base = []
    seen = set()
    for _ in range(rng.randint(1, 6)):
        f = gtf_feat(rng)
        key = (f["cols"][2], tuple(map(tuple, [(k, tuple(v)) for k, v in f["attrs"][:2]]))) if f["cols"][2] in ("gene", "transcript") else None
        if key and key in seen:
            continue
        seen.add(key)
        base.append(f)
    ops = [{"op": "create", "feats": base, "form": rng.choice(["path", "list", "string"]), "kw": {"merge_strategy": "create_unique"}}]
    idpool = ["G1", "G2", "T1", "T2", "T3", "exon_1", "exon_2", "CDS_1", "zz"]
    for _ in range(rng.randint(2, 8)):
        k = rng.choices(["update", "delete", "add_relation", "reopen", "restart", "gc"], [6, 2, 1.5, 1.5, 1, 0.5])[0]
        if k == "update":
            strat = rng.choice(STRATS)
            kw = {"merge_strategy": strat, "checklines": rng.choice([0, 0, 1, 2, 10])}
            if rng.random() < 0.35:
                kw["make_backup"] = False
            if strat == "merge" and cfg["fmf"]:
                kw["force_merge_fields"] = list(cfg["fmf"])
            ops.append({"op": "update", "feats": [gtf_feat(rng) for _ in range(rng.choice([0, 1, 2, 2, 3, 4]))], "form": rng.choice(FORMS), "kw": kw,
                        "other_dialect": rng.random() < 0.3})
        elif k == "delete":
            ids = rng.sample(idpool, rng.choice([1, 1, 2]))
            ops.append({"op": "delete", "ids": ids, "form": rng.choice(["strs", "features", "gen"]), "kw": {"make_backup": rng.random() < 0.6}})
        elif k == "add_relation":
            p, c = rng.sample(idpool[:8], 2)
            ops.append({"op": "add_relation", "parent": p, "child": c, "level": rng.choice([1, 2]), "child_func": None, "as_feature": rng.random() < 0.3})
        else:
            ops.append({"op": k})
    variants = []
    upd = [j for j, o in enumerate(ops) if o["op"] == "update" and o["feats"]]
    for j in (upd if tier == "thorough" else rng.sample(upd, min(len(upd), 2))):
        f = rng.choice(["gen", "iter1", "path"])
        for k in range(len(ops[j]["feats"]) + 1):
            variants.append({"at_op": j, "fault": {"src": k, "form": f}})
    wr = [j for j, o in enumerate(ops) if o["op"] in ("update", "delete", "add_relation") and j > 0]
    for _ in range(3):
        if wr:
            variants.append({"at_op": rng.choice(wr), "fault": {"frac": rng.random(), "mode": rng.choice(["error", "crash", "cancel"])}})
    return {"cfg": cfg, "ops": ops, "variants": variants}


def gen_spill_case(rng):
    """A long update through a handle opened with a tiny page cache, killed before its first commit: sqlite has
    already written pages of the unfinished transaction into the database file (cache spill), so what a fresh
    process finds depends on the journal of the updating connection."""
    fcfg = {"p_id": 0.0, "p_parent": 0.3, "types": ["exon", "CDS"], "seqids": ["chr1"], "pool": [1, 5, 10, 20, 30, 1000, 20000]}
    base = G.gff3_batch(rng, rng.randint(2, 5), dict(fcfg, p_id=0.9), unique_ids=True)
    big = G.gff3_batch(rng, rng.choice([1500, 2500]), fcfg)
    ops = [{"op": "create", "feats": base, "form": "path", "kw": {"merge_strategy": "error"}},
           {"op": "reopen"},
           {"op": "update", "feats": big, "form": rng.choice(["gen", "list"]), "kw": {"merge_strategy": "create_unique", "checklines": 1,
                                                                                    "make_backup": rng.random() < 0.5}}]
    variants = [{"at_op": 2, "fault": {"frac": rng.uniform(0.25, 0.8), "mode": "crash"}}]
    cfg = {"fmf": [], "keep_order": False,
           "pragmas": {"synchronous": "NORMAL", "journal_mode": "MEMORY", "main.page_size": 4096, "main.cache_size": rng.choice([5, 10, 20])}}
    return {"cfg": cfg, "ops": ops, "variants": variants, "spill": True}


def gen_long_src_case(rng):
    """A long update (> 1000 features, auto-generated keys) whose source fails after more than 1000 items, then a
    reopen and a further update with auto-generated keys: whatever internal batching the importer uses, keys that
    became visible must never be handed out again."""
    fcfg = {"p_id": 0.0, "p_parent": 0.2, "types": ["exon", "CDS"], "seqids": ["chr1"], "pool": [1, 5, 10, 20, 30, 1000]}
    base = G.gff3_batch(rng, rng.randint(2, 4), dict(fcfg, p_id=0.9), unique_ids=True)
    n = rng.choice([1300, 2300])
    big = G.gff3_batch(rng, n, fcfg)
    tail = G.gff3_batch(rng, 3, fcfg)
    ops = [{"op": "create", "feats": base, "form": "path", "kw": {"merge_strategy": "error"}},
           {"op": "update", "feats": big, "form": "gen", "kw": {"merge_strategy": "create_unique", "checklines": 1, "make_backup": False}},
           {"op": rng.choice(["reopen", "restart"])},
           {"op": "update", "feats": tail, "form": "list", "kw": {"merge_strategy": rng.choice(["error", "create_unique"]), "make_backup": False}}]
    variants = [{"at_op": 1, "fault": {"src": rng.choice([1001, 1005, n - 1, n]), "form": rng.choice(["gen", "iter1"])}}]
    return {"cfg": {"fmf": [], "keep_order": False}, "ops": ops, "variants": variants, "spill": True, "long_src": True}


def gen(rng, tier):
    r_ = rng.random()
    if r_ < 0.02:
        return gen_long_src_case(rng)
    if r_ < 0.04:
        return gen_spill_case(rng)
    c = gen_gtf_case(rng, tier) if rng.random() < 0.2 else gen_case(rng, tier)
    if not c["cfg"].get("memory") and rng.random() < 0.12:
        c["cfg"]["symlink"] = True  # the database is reached through a symbolic link (current.db -> store/<name>)
    return c


# ----------------------------------------------------------------------------- execution

DB = "a.db"


class Stop(Exception):
    pass


class Hist(object):
    def __init__(self, case, probes):
        self.case = case
        self.cfg = case["cfg"]
        self.w = World("c10_")
        self.node = None
        self.model = Model(self.cfg.get("fmt", "gff3"))
        self.mem = bool(self.cfg.get("memory"))  # ':memory:' database: one connection, nothing to reopen, no outside observer
        self.dbn = ":memory:" if self.mem else DB
        self.viol = []
        self.strict = True  # exact auto-key numbers until the first failed op
        self.journal = []
        self.points = {}  # op index -> points of that op
        self.probes = probes
        self.compared = 0
        self.writes = 0
        self.digests = set()
        self.reader = False
        self.src_fault_only = True

    # ---- helpers
    def v(self, clause, detail, **sig):
        self.viol.append(viol(clause, detail, **sig))

    def call(self, op):
        r = self.w.call(self.node, op)
        self.journal.append((op.get("op"), _jr(r, self.w.path)))
        return r

    def new_node(self):
        self.node = self.w.node()

    def open_handle(self):
        okw = {"keep_order": self.cfg.get("keep_order", False)}
        if self.cfg.get("pragmas"):
            okw["pragmas"] = self.cfg["pragmas"]
        r = self.call({"op": "open", "h": "h", "db": DB, "kw": okw})
        if not r["ok"]:
            self.v("C10.reopen", "database cannot be opened: %s %s" % (r["exc"], r["msg"]), kind="open_failed")
            raise Stop()

    def dialect(self):
        return G.DEFAULT_GTF if self.cfg.get("fmt") == "gtf" else G.DEFAULT_GFF3

    def fmt_kw(self):
        # GTF histories run with inference disabled in every call (C03 judges inference)
        return {"disable_infer_genes": True, "disable_infer_transcripts": True} if self.cfg.get("fmt") == "gtf" else {}

    def data_spec(self, op, src=None):
        form = op["form"]
        fault = op.get("fault") or {}
        if "src" in fault:
            form = fault.get("form", form)
        d_ = self.dialect()
        if op.get("other_dialect"):
            # the update's data is written in the other format's attribute syntax (key=value for a GTF database,
            # key "value"; for a GFF3 database): the same attributes, and the database keeps its own format
            d_ = G.DEFAULT_GFF3 if self.cfg.get("fmt") == "gtf" else dict(G.DEFAULT_GTF)
        spec = G.source_spec(None, op["feats"], form=form, d=d_)
        if "src" in fault:
            spec["fail_at"] = fault["src"]
        return spec

    def compare(self, where, node_dump=True, observer=False):
        """model == store, through the handle (and optionally a fresh observer process)."""
        dumps = []
        if node_dump:
            r = self.call({"op": "dump", "h": "h"})
            if not r["ok"]:
                self.v("C10.content", "%s: reading back failed: %s %s" % (where, r["exc"], r["msg"]), kind="dump_failed")
                raise Stop()
            dumps.append(("handle", r["dump"]))
        if observer and not self.mem:
            obs = self.w.node()
            r = self.w.call(obs, {"op": "open", "h": "o", "db": DB})
            if r["ok"]:
                r = self.w.call(obs, {"op": "dump", "h": "o"})
            obs.close()
            if not r["ok"]:
                self.v("C10.content", "%s: fresh process cannot read the database: %s %s" % (where, r["exc"], r["msg"]),
                       kind="observer_failed")
                raise Stop()
            dumps.append(("fresh-process", r["dump"]))
        for name, d in dumps:
            self.reconcile(d, where)
            df = diff_store(self.model, d)
            self.compared += 1 if d["features"] else 0
            self.digests.add(core.digest([d["features"], d.get("rel")]))
            if df and all(kd == "replace_stale_parent_link" for kd, _ in df):
                # recorded finding (C05): report under its own signature, adopt, carry on
                self.v("C10.content", "%s [%s]: %s" % (where, name, df[0][1]), kind="replace_stale_parent_link")
                self.model.rel |= self.model.stale_links
                self.model.stale_links = set()
                df = []
            if df:
                kind = df[0][0]
                self.v("C10.content", "%s [%s]: %s" % (where, name, "; ".join(t for _, t in df[:5])), kind=kind)
                raise Stop()

    def reconcile(self, dump, where, m=None, strict=None, soft=False):
        """C10 clause 3: auto-generated keys continue their numbering and never equal a key
        handed out earlier.  Strict mode: numbers equal the model's.  After a failed op the
        handle's in-memory counters may legitimately have advanced: numbers must then only be
        fresh (> every number seen for that base) and increasing; the model adopts them.
        soft=True: return False instead of reporting (used while matching candidate states)."""
        m = self.model if m is None else m
        strict = self.strict if strict is None else strict
        issued = list(m.auto_issued)
        m.auto_issued = []
        if not issued:
            return True
        if strict:
            for key, base, n in issued:
                m.ledger_max[base] = max(m.ledger_max.get(base, 0), n)
            return True
        store_ids = [f["id"] for f in dump["features"]]
        pre_ids = self.pre_ids
        store_new = [i for i in store_ids if i not in pre_ids]
        bases = []
        for key, base, n in issued:
            if base not in bases:
                bases.append(base)
        ren = {}
        for base in bases:
            mine = [key for key, b, n in issued if b == base and key in m.feats and key not in pre_ids]
            theirs = []
            for s_ in store_new:
                mm = AUTO_RE.match(s_)
                if mm and mm.group(1) == base:
                    theirs.append(s_)
            last = m.ledger_max.get(base, 0)
            for key, s_ in zip(mine, theirs):
                sn = int(AUTO_RE.match(s_).group(2))
                if sn <= last:
                    if soft:
                        return False
                    self.v("C10.ids", "%s: auto-generated key %s re-uses or goes below number %d already handed out for %r" % (
                        where, s_, last, base), kind="recycled_key")
                    raise Stop()
                last = sn
                if key != s_:
                    ren[key] = s_
            m.ledger_max[base] = last
            m.counters[base] = max(m.counters.get(base, 0), last)
        if ren:
            _rename_many(m, ren)
            if not soft:
                self.probes["autokey_gap_adopted"] = self.probes.get("autokey_gap_adopted", 0) + 1
        return True

    def backup_pre(self, op):
        mb = op.get("kw", {}).get("make_backup", True)
        if not mb or self.mem:
            return None
        return logical(raw_dump(self.w.p(DB)))

    def backup_check(self, pre, j, copied=True):
        if pre is None or not copied:
            return
        p = self.w.p(DB + ".bak")
        if not os.path.exists(p):
            self.v("C10.backup", "op %d: make_backup set but no .bak file exists" % j, kind="bak_missing")
            raise Stop()
        try:
            got = logical(raw_dump(p))
        except Exception as e:
            self.v("C10.backup", "op %d: .bak is not a readable database: %r" % (j, e), kind="bak_unreadable")
            raise Stop()
        if got != pre:
            what = [t for t in pre if got.get(t) != pre[t]]
            self.v("C10.backup", "op %d: .bak differs from the pre-operation database in %s" % (j, what), kind="bak_differs")
            raise Stop()
        self.probes["backup_checked"] = self.probes.get("backup_checked", 0) + 1

    def mimport(self, m, feats, strategy="error", fmf=(), upto=None):
        """arrivals into model m under this history's importer (GFF3, or GTF with inference disabled)"""
        if self.cfg.get("fmt") == "gtf":
            m.gtf["dig"] = m.gtf["dit"] = True
            return m.import_gtf(feats, strategy=strategy, id_spec=None, fmf=fmf, upto=upto, infer=False)
        return m.import_gff3(feats, strategy=strategy, id_spec=self.cfg.get("id_spec") or "ID", fmf=fmf, upto=upto)

    # ---- model side of one write op; returns list of candidate models for a failed op
    def model_apply(self, op, upto=None):
        m = self.model
        k = op["op"]
        if k == "update":
            kw = op["kw"]
            self.mimport(m, op["feats"], kw.get("merge_strategy", "error"), tuple(kw.get("force_merge_fields") or ()), upto)
        elif k == "delete":
            m.delete(op["ids"])
        elif k == "add_relation":
            m.add_relation(op["parent"], op["child"], op["level"], child_func=op.get("child_func"))

    def prefix_models(self, op, pre, dump=None):
        """Allowed store states after a failed op (DESIGN §6.3)."""
        out = [("pre", pre)]
        if op["op"] == "update":
            n = len(op["feats"])
            ks = range(1, n + 1)
            if n > 40 and dump is not None:
                # long update: only prefixes whose size fits the number of features found
                k0 = len(dump["features"]) - len(pre.order)
                ks = [k for k in range(k0 - 2, k0 + 3) if 1 <= k <= n]
            for k in ks:
                m = pre.clone()
                try:
                    kw = op["kw"]
                    self.mimport(m, op["feats"], kw.get("merge_strategy", "error"), tuple(kw.get("force_merge_fields") or ()), k)
                except (ModelError, Undefined):
                    break
                out.append(("prefix%d" % k, m))
            try:
                m = pre.clone()
                kw = op["kw"]
                self.mimport(m, op["feats"], kw.get("merge_strategy", "error"), tuple(kw.get("force_merge_fields") or ()))
                out.append(("post", m))
            except (ModelError, Undefined):
                pass
        else:
            m = pre.clone()
            try:
                self.model = m
                self.model_apply(op)
                out.append(("post", m))
            except (ModelError, Undefined):
                pass
            finally:
                self.model = pre
        return out

    def adopt_after_failure(self, op, pre, j, fresh):
        """The store must be one of the allowed states; the model adopts the matching one."""
        was_strict = self.strict
        self.strict = False
        fresh = fresh and not self.mem
        node = self.w.node() if fresh else self.node
        if fresh:
            r = self.w.call(node, {"op": "open", "h": "h", "db": DB})
            if r["ok"]:
                r = self.w.call(node, {"op": "dump", "h": "h"})
            node.close()
        else:
            r = self.call({"op": "dump", "h": "h"})
        if not r["ok"]:
            self.v("C10.failed_op_state", "op %d failed and the database is unreadable afterwards: %s %s" % (
                j, r["exc"], r["msg"]), kind="unreadable_after_failure")
            raise Stop()
        d = r["dump"]
        cands = self.prefix_models(op, pre, d)
        best = None
        for name, m in cands:
            if was_strict:
                m.auto_issued = []
            elif not self.reconcile(d, "after failed op %d" % j, m=m, strict=False, soft=True):
                continue
            df = diff_store(m, d, check_rel=False)
            if not df:
                # level-1 relations exact; level-2 between pre and post
                if _rel_ok(m, d, name):
                    self.model = m
                    self.probes["adopt_" + ("prefix" if name.startswith("prefix") else name)] = \
                        self.probes.get("adopt_" + ("prefix" if name.startswith("prefix") else name), 0) + 1
                    for i in m.order:
                        mm = AUTO_RE.match(i)
                        if mm:
                            b, n = mm.group(1), int(mm.group(2))
                            if m.counters.get(b, 0) >= n:
                                m.ledger_max[b] = max(m.ledger_max.get(b, 0), n)
                    return name
            if best is None or len(df) < len(best[1]):
                best = (name, df)
        if best is None:
            best = ("none", [("recycled_key", "every candidate state would need an auto-generated key number that was already handed out")])
        self.v("C10.failed_op_state",
               "op %d (%s) failed; the store is neither the pre-state nor pre-state + a prefix of the arrivals. "
               "closest=%s: %s" % (j, op["op"], best[0], "; ".join(t for _, t in best[1][:4])),
               kind=best[1][0][0] if best[1] else "rel")
        raise Stop()

    # ---- the history
    def run(self):
        ops = self.case["ops"]
        try:
            self.new_node()
            for j, op in enumerate(ops):
                self.step(j, op)
            # end of history: all vantage points agree with the model
            if self.stop_at_reopen and self.mem and "h" in self.handles():
                self.compare("end of history (same handle after fault)", node_dump=True, observer=False)
            elif self.stop_at_reopen and "h" in self.handles():
                self.compare("end of history (same handle after fault)", node_dump=True, observer=True)
                self.call({"op": "drop", "h": "h"})
                self.call({"op": "gc"})
                self.open_handle()
                self.liveness(len(ops))
            elif "h" in self.handles():
                self.compare("end of history", node_dump=True, observer=True)
        except Stop:
            pass
        except Undefined:
            self.discarded = True
        finally:
            self.stats = self.w.stats
            self.w.close()

    discarded = False

    def handles(self):
        return ("h",) if self.node is not None and self.node.alive else ()

    def step(self, j, op):
        k = op["op"]
        fault = op.get("fault")
        if k == "create":
            spec = G.source_spec(None, op["feats"], form=op["form"], d=self.dialect())
            req = {"op": "create", "h": "h", "db": self.dbn, "data": spec, "src": "op%d" % j,
                   "kw": dict(op["kw"], keep_order=self.cfg.get("keep_order", False), **self.fmt_kw())}
            if self.cfg.get("id_spec") is not None:
                req["id_spec"] = self.cfg["id_spec"]
            if self.cfg.get("symlink") and not self.mem:
                self.call({"op": "symlink", "link": self.dbn, "target": "store/real.db"})
                self.probes["database_behind_symlink"] = 1
            r = self.call(req)
            self.points[j] = r["points"]
            try:
                self.mimport(self.model, op["feats"], op["kw"].get("merge_strategy", "error"), tuple(op["kw"].get("force_merge_fields") or ()))
            except ModelError:
                raise Undefined("base import rejected by the model")
            if not r["ok"]:
                raise Undefined("base import failed: %s" % r["msg"])
            self.compare("after create")
            return
        if k == "gc":
            self.call({"op": "gc"})
            return
        if k in ("reopen", "restart") and self.mem:
            self.call({"op": "gc"})
            return
        if k in ("reopen", "restart") and self.stop_at_reopen:
            self.call({"op": "drop", "h": "h"})
            self.call({"op": "gc"})
            self.open_handle()
            self.liveness(j)
            raise Stop()
        if k == "reopen":
            if op.get("keep_reader"):
                self.reader = True
            # close/reopen: sqlite3 connections sit in a reference cycle (statement cache), so
            # "closing" a handle is dropping it and letting the collector run (scheduled here)
            self.call({"op": "drop", "h": "h"})
            self.call({"op": "gc"})
            self.open_handle()
            self.compare("after reopen")
            return
        if k == "restart":
            self.node.close()
            self.new_node()
            self.open_handle()
            self.compare("after restart")
            return
        # ---- write ops
        pre = self.model.clone()
        pre.auto_issued = []
        self.pre_ids = set(pre.order)
        bpre = self.backup_pre(op) if k in ("update", "delete") else None
        expect_fail = None
        try:
            self.model_apply(op)
        except ModelError as e:
            expect_fail = str(e)
            self.model = pre.clone()
        if k == "add_relation" and op.get("child_func") == "raise" and not expect_fail:
            # the user's child_func raises after the relation and the parent row were written: the call fails, nothing of it stays
            expect_fail = "the child_func callback raises"
            self.model = pre.clone()
            self.probes["add_relation_callback_raises"] = self.probes.get("add_relation_callback_raises", 0) + 1
        req = self.request(j, op)
        if fault:
            req["faults"] = [_fault_spec(fault)] if ("at" in fault or "kind" in fault) else []
        self.writes += 1
        try:
            r = self.call(req)
        except NodeDied as e:
            if not fault or fault.get("mode") != "crash":
                raise
            # planned crash: only durable state survives
            self.probes["crash_in_op"] = self.probes.get("crash_in_op", 0) + 1
            self.src_fault_only = False
            log = (e.where or {}).get("log") or []
            copied = any(kk == "fs.copied" for kk, _ in log)
            self.backup_check(bpre, j, copied)
            self.adopt_after_failure(op, pre, j, fresh=True)
            self.new_node()
            self.open_handle()
            self.compare("after crash+restart", observer=False)
            self.liveness(j)
            raise Stop()
        self.points[j] = r["points"]
        fired = bool(r.get("fired")) or (r.get("injected") and not r["ok"])
        if fault and not fired and "src" not in fault:
            self.probes["fault_not_reached"] = self.probes.get("fault_not_reached", 0) + 1
        if r["ok"]:
            if expect_fail:
                self.v("C10.content", "op %d %s should have been rejected (%s) but was acknowledged" % (j, k, expect_fail),
                       kind="missing_rejection", op=k)
                raise Stop()
            self.backup_check(bpre, j)
            self.compare("after op %d (%s)" % (j, k), observer=(j % 3 == 0))
            if self.reader:
                pass
            return
        # ---- the op raised
        injected = bool(r.get("injected"))
        locked = (r["exc"] == "OperationalError" and "locked" in r["msg"])
        if (k == "add_relation" and r["exc"] == "IntegrityError" and not injected and not expect_fail and pre.l2_open
                and op.get("level") == 2):
            # recorded finding KF-C05-2 seen from another side: level-2 rows derived through the stale Parent links of a
            # replaced feature are in the store (relaxation 8 leaves them unjudged), so this very row may exist already
            links = pre.rel | pre.stale_links
            mids = set(x for (a, x, l) in links if a == op["parent"] and l == 1)
            if any((x, op["child"], 1) in links for x in mids):
                self.v("C10.content", "op %d add_relation(%r, %r, 2) is refused as a duplicate: the row was derived through the former "
                       "Parent links of a replaced feature" % (j, op["parent"], op["child"]), kind="replace_stale_parent_link")
                self.model = pre
                return
        if not injected and not expect_fail and not (locked and not self.strict and self.pending_gc):
            self.v("C10.content", "op %d %s raised %s: %s in a history where the model expects it to succeed" % (
                j, k, r["exc"], r["msg"]), kind="unexpected_exception", op=k, exc=r["exc"])
            raise Stop()
        if injected and "src" not in (fault or {}):
            self.src_fault_only = False
        copied = r.get("kinds", {}).get("fs.copied", 0) > 0
        self.backup_check(bpre, j, copied)
        if injected:
            self.probes["injected_" + (("src@%s" % ("peek" if r["points"] < 12 else "populate")) if "src" in (fault or {}) else
                                       fault.get("mode", "?"))] = self.probes.get(
                "injected_" + (("src@%s" % ("peek" if r["points"] < 12 else "populate")) if "src" in (fault or {}) else
                               fault.get("mode", "?")), 0) + 1
        self.model = pre
        # optional probe: the next op before any gc may be refused with "database is locked";
        # it must then leave the state unchanged
        self.pending_gc = True
        self.adopt_after_failure(op, pre, j, fresh=True)
        self.call({"op": "gc"})
        self.pending_gc = False
        if injected and not self.src_fault_only:
            if k == "update":
                # update() writes through a connection of its own: after an error / cancel inside it (and one gc)
                # the handle must show exactly what a fresh process shows, and stays usable.  The history goes on
                # with this handle until the next reopen/restart (after which key numbering is no longer judged,
                # see ASSUMPTIONS: the counters of an update are committed after its rows).
                self.compare("after failed update + gc (same handle)")
                self.probes["continued_on_same_handle_after_fault"] = self.probes.get("continued_on_same_handle_after_fault", 0) + 1
                self.stop_at_reopen = True
                return
            # an sql error / cancel inside the handle's own transaction (delete, add_relation) leaves that
            # connection with uncommitted work; the recovery step of the alphabet is close/reopen
            if self.mem:
                raise Stop()
            self.call({"op": "drop", "h": "h"})
            self.call({"op": "gc"})
            self.open_handle()
            self.compare("after failed op + reopen")
            self.liveness(j)
            raise Stop()
        self.compare("after failed op + gc")

    pending_gc = False
    stop_at_reopen = False
    pre_ids = frozenset()

    def request(self, j, op):
        k = op["op"]
        if k == "update":
            kw = dict(op["kw"], **self.fmt_kw())
            req = {"op": "update", "h": "h", "data": self.data_spec(op), "src": "op%d" % j, "kw": kw}
            if self.cfg.get("id_spec") is not None:
                req["id_spec"] = self.cfg["id_spec"]
            return req
        if k == "delete":
            return {"op": "delete", "h": "h", "ids": op["ids"], "form": op["form"], "kw": dict(op.get("kw") or {})}
        if k == "add_relation":
            rq = {"op": "add_relation", "h": "h", "parent": op["parent"], "child": op["child"], "level": op["level"],
                  "child_func": op.get("child_func"), "as_feature": op.get("as_feature", False)}
            if op.get("child_func") == "raise":
                rq["parent_func"] = "stretch"
            return rq
        raise ValueError(k)

    def liveness(self, j):
        """Bounded liveness: after the last fault and one gc, a fault-free update succeeds and is visible."""
        if self.cfg.get("id_spec") is not None:
            # under a custom id_spec the key of a further feature is itself auto-generated; after a crash between
            # the commits of one update that is outside what is judged here (see ASSUMPTIONS): only readability
            self.compare("after fault (custom id_spec: no liveness update)", observer=True)
            return
        f = G.mf(["chr1", "src", "gene", 3, 9, ".", "+", "."], [["ID", ["live1"]]] if self.cfg.get("fmt") != "gtf" else [["gene_id", ["live1"]]])
        op = {"op": "update", "feats": [f], "form": "list", "kw": {"merge_strategy": "create_unique", "make_backup": False}}
        self.mimport(self.model, [f], "create_unique")
        r = self.call(self.request(j, op))
        if not r["ok"] and "locked" in r["msg"] and not self.mem:
            # recovery step allowed by the statement's alphabet: close/reopen the handle
            self.probes["liveness_needed_reopen"] = self.probes.get("liveness_needed_reopen", 0) + 1
            self.call({"op": "drop", "h": "h"})
            self.call({"op": "gc"})
            self.open_handle()
            r = self.call(self.request(j, op))
        if not r["ok"]:
            self.v("C10.liveness", "after the last fault (op %d), a gc and a reopen, a fault-free update still fails: %s %s" % (
                j, r["exc"], r["msg"]), kind="stuck", exc=r["exc"])
            raise Stop()
        self.probes["liveness_checked"] = self.probes.get("liveness_checked", 0) + 1
        self.compare("liveness update", observer=True)


def _rel_ok(m, d, name):
    """Level-1 relations exact.  Level-2: exact for pre/post; for prefix states anything
    between 'not yet derived' and 'fully derived' (the model then adopts what is stored)."""
    ok1 = False
    for alt in (False, True):
        rv = m.rel_view(alt)
        if all(i in rv and r["c1"] == rv[i]["c1"] and r["p1"] == rv[i]["p1"] for i, r in d["rel"].items()):
            ok1 = True
            if alt:
                m.rel |= m.stale_links  # recorded finding KF-C05-2 (reported by compare(), not here)
                m.stale_links = set()
            break
    if not ok1:
        return False
    rv = m.rel_view()
    if m.l2_open:
        name = "prefix"
    if name in ("pre", "post"):
        for i, r in d["rel"].items():
            for k in ("c2", "p2"):
                if not (set(rv[i][k]) <= set(r[k]) <= set(rv[i][k]) | set(rv[i].get(k + "opt", ()))):
                    return False
        return True
    full = m.clone()
    full.close_level2()
    fv = full.rel_view()
    if not m.l2_open:
        for i, r in d["rel"].items():
            for k in ("c2", "p2"):
                if not (set(rv[i][k]) <= set(r[k]) <= set(fv[i][k]) | set(fv[i].get(k + "opt", ()))):
                    return False
    # adopt the stored level-2 rows
    m.rel = set(x for x in m.rel if not (x[2] == 2 and x[0] in m.feats and x[1] in m.feats))
    for i, r in d["rel"].items():
        for c in r["c2"]:
            m.rel.add((i, c, 2))
    return True


def _rename_many(m, ren):
    g = lambda x: ren.get(x, x)
    feats = {}
    for k, f in m.feats.items():
        f["id"] = g(k)
        feats[g(k)] = f
    m.feats = feats
    m.order = [g(x) for x in m.order]
    m.rel = set((g(p), g(c), l) for p, c, l in m.rel)
    m.stale_links = set((g(p), g(c), l) for p, c, l in m.stale_links)
    m.opt2 = set((g(p), g(c), l) for p, c, l in m.opt2)
    m.manual1 = set((g(p), g(c), l) for p, c, l in m.manual1)
    for k, lst in m.dups.items():
        m.dups[k] = [g(x) for x in lst]


def _fault_spec(f):
    s = {"mode": f.get("mode", "error")}
    if "at" in f:
        s["at"] = f["at"]
    else:
        s["kind"] = f["kind"]
        s["nth"] = f.get("nth", 0)
    return s


def _jr(r, world):
    from sim.runner import scrub

    r = dict(r)
    r.pop("dump", None) if False else None
    return scrub(core.canon(r), world)


def run_history(case, probes):
    h = Hist(case, probes)
    h.run()
    return h


def run(case):
    probes = {}
    out = {"violations": [], "stats": {}, "probes": probes, "digests": set()}
    base_case = {"cfg": case["cfg"], "ops": case["ops"]}
    h = run_history(base_case, probes)
    stats = dict(h.stats)
    journal = list(h.journal)
    nontrivial = h.writes > 0 and h.compared > 0
    out["digests"] |= h.digests
    for v in h.viol:
        v["case"] = dict(base_case, variants=[])
        out["violations"].append(v)
    if h.discarded:
        out["discarded"] = True
    # variants (only when the base history itself is clean and defined)
    if not h.viol and not h.discarded and not any("fault" in o for o in case["ops"]):
        for var in case.get("variants") or []:
            j = var["at_op"]
            if j >= len(case["ops"]):
                continue
            ops2 = copy.deepcopy(case["ops"])
            f = dict(var["fault"])
            if "frac" in f:
                n = h.points.get(j)
                if not n:
                    continue
                f = {"at": min(n - 1, int(f["frac"] * n)), "mode": f["mode"]}
            ops2[j]["fault"] = f
            pk = "variants_source_position" if "src" in f else "variants_seam_point_%s" % f.get("mode", "error")
            probes[pk] = probes.get(pk, 0) + 1
            if var.get("nogc_probe"):
                ops2[j]["nogc_probe"] = True
            vcase = {"cfg": case["cfg"], "ops": ops2}
            hv = run_history(vcase, probes)
            _merge_stats(stats, hv.stats)
            journal.extend(hv.journal)
            out["digests"] |= hv.digests
            for v in hv.viol:
                v["case"] = dict(vcase, variants=[])
                out["violations"].append(v)
    out["stats"] = stats
    out["trace_hash"] = core.digest(journal)
    out["nontrivial"] = nontrivial
    if case.get("long_src"):
        probes["long_update_source_failure_after_1000_items"] = 1
    elif case.get("spill"):
        probes["long_update_small_cache_crash"] = 1
    out["sample"] = {"ops": [_op_summary(o) for o in case["ops"]] if not case.get("spill") else "long update through a small page cache, crash",
                     "variants": [dict(v["fault"], at_op=v["at_op"]) for v in (case.get("variants") or [])][:6]}
    return out


def fault_profile(steps, cfg, seed, clause_prefix, n_point_faults=2):
    """C10-style fault variants for another check's history (DESIGN §5: 'a separate profile adds source
    failures / sql errors / crashes with the relaxed oracle').  steps: that check's create/update/reopen/
    restart/gc steps (GFF3).  Returns (violations, stats, probes)."""
    import random

    rng = random.Random(seed)
    ops = []
    for st in steps:
        k = st["op"]
        if k in ("create", "update"):
            kw = {"merge_strategy": st.get("strategy", "create_unique")}
            if kw["merge_strategy"] == "merge" and cfg.get("fmf"):
                kw["force_merge_fields"] = list(cfg["fmf"])
            if k == "update":
                kw["make_backup"] = rng.random() < 0.5
                kw["checklines"] = rng.choice([0, 0, 1, 2, 10])
            ops.append({"op": k, "feats": st["feats"], "form": st.get("form", "list"), "kw": kw})
        elif k in ("reopen", "restart", "gc"):
            ops.append({"op": k if not cfg.get("memory") else "gc"})
    if not ops or ops[0]["op"] != "create":
        return [], {}, {}
    ops.append({"op": rng.choice(["reopen", "restart"]) if not cfg.get("memory") else "gc"})
    ops.append({"op": "update", "feats": [G.mf(["chr1", "src", "exon", 3, 9, ".", "+", "."], [["note", ["tail"]]]),
                                         G.mf(["chr1", "src", "exon", 3, 9, ".", "+", "."], [["ID", [rng.choice(["a", "b", "tailid"])]]])],
                "form": "list", "kw": {"merge_strategy": "create_unique", "make_backup": False}})
    upd = [j for j, o in enumerate(ops[:-2]) if o["op"] == "update" and o["feats"]]
    variants = []
    if upd:
        j = rng.choice(upd)
        f = rng.choice(["gen", "iter1", "path"])
        ks = list(range(len(ops[j]["feats"]) + 1))
        for k in rng.sample(ks, min(len(ks), 3)):
            variants.append({"at_op": j, "fault": {"src": k, "form": f}})
        # (on a ':memory:' database a fault in the middle of one arrival leaves half of that arrival visible on the
        #  shared connection - finer than the prefix granularity judged here - so only source failures are used there)
        for _ in range(n_point_faults if not cfg.get("memory") else 0):
            variants.append({"at_op": rng.choice(upd), "fault": {"frac": rng.random(), "mode": rng.choice(["error", "crash", "cancel", "crash"])}})
        if not cfg.get("memory"):
            # faults addressed by kind, so that the first statements of the import (one INSERT per arrival) and each of
            # its commits are hit as often as the many file-system points
            variants.append({"at_op": rng.choice(upd), "fault": {"kind": "sql", "nth": rng.randint(0, 9), "mode": rng.choice(["error", "error", "locked", "cancel"])}})
            variants.append({"at_op": rng.choice(upd), "fault": {"kind": rng.choice(["commit", "committed"]), "nth": rng.randint(0, 3),
                                                                 "mode": rng.choice(["error", "crash"])}})
    case = {"cfg": {"fmf": list(cfg.get("fmf") or []), "keep_order": False, "id_spec": cfg.get("id_spec"), "memory": bool(cfg.get("memory"))},
            "ops": ops, "variants": variants}
    out = run(case)
    vs = []
    for v in out["violations"]:
        v = dict(v)
        v["sig"] = dict(v["sig"], clause=clause_prefix + "/" + v["sig"]["clause"])
        v["clause"] = v["sig"]["clause"]
        v.pop("case", None)
        vs.append(v)
    return vs, out["stats"], out.get("probes") or {}


def _merge_stats(a, b):
    for k in ("nodes", "crashes", "points", "ops"):
        a[k] = a.get(k, 0) + b.get(k, 0)
    for k in ("kinds", "fired"):
        for x, y in b.get(k, {}).items():
            a.setdefault(k, {})[x] = a[k].get(x, 0) + y


def _op_summary(o):
    s = {"op": o["op"]}
    if "feats" in o:
        s["lines"] = G.lines_of(o["feats"])
        s["form"] = o.get("form")
    for k in ("kw", "ids", "parent", "child", "level", "child_func", "fault"):
        if k in o:
            s[k] = o[k]
    return s
