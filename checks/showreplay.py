import json,sys
sys.path.insert(0,'/verif')
from sim import gen as G
r=json.load(open(sys.argv[1]))
print(r["violation"]["detail"][:600]); print(r["note"])
c=r["case"]
print({k:v for k,v in c.items() if k not in("ops","variants")})
for o in c.get("ops",[]):
    d={k:v for k,v in o.items() if k not in("feats",)}
    print("  ",json.dumps(d)[:400])
    for l in G.lines_of(o.get("feats",[])): print("       ",l)
