"""
C03 - GTF import infers exact gene/transcript extents and the three-level hierarchy.

Store conformance: derived features are computed from the stored exons, written to a
temp file, read back and inserted (colliding with explicit lines through the 'merge'
path); relations are inserted per line.  The law is checked on the returned handle,
after reopen, and from a fresh process after restart; a fault on the derived-feature
temp file must make the import fail, never produce a database with missing or wrong
derived features.
"""
from sim import core
from sim import gen as G
from sim.core import World
from sim.model import Model, aget
from sim.node import NodeDied
from sim.runner import viol

ID = "C03"
LEVEL = "exploration"
RULE = ("seeded GTF annotations (1-3 genes, 1-2 transcripts each, 0-3 exons + CDS/start_codon lines, optional explicit "
        "gene/transcript lines, shuffled or interleaved, transcripts without exons, custom keys/subfeature) x the four "
        "disable_infer_* settings; observed via handle / reopen / fresh process; temp-file faults. distinct = journal hash; "
        "non-trivial = >= 1 derived or explicit transcript with >= 1 exon")
ASSUMPTIONS = ["every line carries both ids and each gene has one seqid/strand (the statement says 'the exons' seqid and strand')",
               "with custom keys the matching id_spec is supplied; extra uniquified duplicates '<id>_<n>' are not generated "
               "(explicit lines never equal the derived feature in all columns)"]


def budget(tier):
    if tier == "quick":
        return {"runs": 3000, "wall": 120, "chunk": 8}
    return {"runs": 90000, "wall": 1500, "chunk": 8}


def gen(rng, tier):
    custom = rng.random() < 0.2
    cfg = {"max_genes": 3, "max_tx": 2, "shuffle": rng.random() < 0.4, "shuffle_within": rng.random() < 0.4,
           "explicit_tx": rng.random() < 0.35, "explicit_gene": rng.random() < 0.35, "explicit_odd": rng.random() < 0.5,
           "explicit_source": rng.choice(["src", "ensembl"]), "gene_level": rng.random() < 0.3,
           "odd_ids": rng.random() < 0.15, "tx_two_genes": rng.random() < 0.15}
    if rng.random() < 0.08:
        cfg["pool"] = [1, 100, (1 << 29) - 100, (1 << 29) - 1, (1 << 29) + 5, (1 << 29) + 100]  # exons on both sides of 2**29
    if cfg["explicit_gene"] or cfg["gene_level"]:
        cfg["odd_ids"] = False  # a line with one attribute only would leave the role of its ';' ambiguous
    if custom:
        cfg.update({"transcript_key": "tid", "gene_key": "gid", "subfeature": "part"})
    long_run = rng.random() < 0.04  # a minority of long inputs (batch-size / buffer effects)
    if long_run:
        cfg.update({"max_genes": rng.choice([150, 300, 450, 700]), "n_exons": [1, 1, 2, 3]})
        if cfg["max_genes"] == 700:
            cfg["max_tx"] = 3  # > 1000 transcripts owning exons
    feats = []
    while not feats:
        feats = G.gtf_annotation(rng, cfg)
    kw = {}
    dig, dit = rng.choice([(False, False), (False, False), (True, False), (False, True), (True, True)])
    if dig:
        kw["disable_infer_genes"] = True
    if dit:
        kw["disable_infer_transcripts"] = True
    fault = None
    if rng.random() < 0.25:
        fault = {"kind": rng.choice(["fs.write", "fs.tmpname", "fs.open", "fs.close", "fs.read", "fs.unlink"]),
                 "nth": rng.choice([0, 0, 1, 2, 3]), "mode": rng.choice(["error", "error", "crash"])}
    updates = []
    if not custom and not fault and not long_run and rng.random() < 0.5:
        exons = [f for f in feats if f["cols"][2] == "exon"]
        for ui in range(rng.choice([1, 1, 2])):
            kind = rng.choice(["new_genes", "new_transcript_in_old_gene"]) if exons else "new_genes"
            if kind == "new_genes":
                uf = []
                while not uf:
                    uf = G.gtf_annotation(rng, {"max_genes": 2, "max_tx": 2})
                for f in uf:
                    for kv in f["attrs"]:
                        if kv[0] in ("gene_id", "transcript_id"):
                            kv[1] = ["U%d%s" % (ui, kv[1][0])]
            else:
                # a further transcript of a gene that is already stored, its exons inside the gene's present extent
                e0 = rng.choice(exons)
                g = [v for k, v in e0["attrs"] if k == "gene_id"][0][0]
                same = [e for e in exons if [v for k, v in e["attrs"] if k == "gene_id"][0][0] == g]
                uf = []
                for e in rng.sample(same, min(len(same), rng.choice([1, 2]))):
                    uf.append(G.mf(list(e["cols"]), [["gene_id", [g]], ["transcript_id", ["UT%d" % ui]]]))
            upd = {"feats": uf, "form": rng.choice(["list", "gen", "path", "string", "objs"]), "kind": kind,
                   "other_punctuation": rng.random() < 0.4}
            if rng.random() < 0.4:
                # the first attempt's source fails after the dialect peek; the call is then retried on the same handle
                upd["fail_first_at"] = rng.randint(min(2, len(uf)), len(uf))
                upd["checklines"] = 0
            updates.append(upd)
    pair = None
    if not custom and not fault and not long_run and rng.random() < 0.15:
        f2 = []
        while not f2:
            f2 = G.gtf_annotation(rng, {"max_genes": 3, "max_tx": 2})
        pair = {"feats": f2, "sched_seed": rng.getrandbits(32), "policy": rng.choice(["uniform", "bursty", "rr", "pileup"])}
    shared = None
    if not custom and not fault and not long_run and not updates and pair is None and rng.random() < 0.2:
        # Ensembl style: exons carry an exon_id that is their key, and an exon shared by several transcripts of a gene is
        # listed once per transcript; with merge_strategy='merge' it is stored once and belongs to each of them
        shared = True
        out_ = []
        n_e = 0
        for f in feats:
            if f["cols"][2] in ("gene", "transcript"):
                continue
            if f["cols"][2] == "exon":
                n_e += 1
                f["attrs"] = [a for a in f["attrs"] if a[0] != "exon_number"] + [["exon_id", ["E%d" % n_e]]]
                out_.append(f)
                g_ = [v for k_, v in f["attrs"] if k_ == "gene_id"][0][0]
                t_ = [v for k_, v in f["attrs"] if k_ == "transcript_id"][0][0]
                if rng.random() < 0.5:
                    import copy as _c
                    f2 = _c.deepcopy(f)
                    for a in f2["attrs"]:
                        if a[0] == "transcript_id":
                            a[1] = [t_ + "b"]
                    out_.append(f2)
            else:
                out_.append(f)
        if out_:
            feats = out_
        else:
            shared = None
    tx_types = False
    if not custom and not shared and any(f["cols"][2] == "transcript" for f in feats) and rng.random() < 0.4:
        # files that call their transcript records mRNA / ncRNA, imported with an id_spec that keys those by transcript_id:
        # such a line IS the transcript (never its own parent or child), whatever its featuretype says
        tx_types = True
        for f in feats:
            if f["cols"][2] == "transcript":
                f["cols"][2] = rng.choice(["mRNA", "ncRNA", "transcript"])
    return {"feats": feats, "custom": custom, "kw": kw, "form": rng.choice(["path", "string", "list", "gen"]), "shared": shared,
            "tx_types": tx_types, "failed_update_probe": rng.random() < 0.2, "late_update": rng.choice([None, None, "list", "gen", "string", "objs"]),
            "after": rng.choice(["none", "reopen", "restart", "restart"]), "fault": fault, "updates": updates, "pair": pair,
            "base_no_trailing_semicolon": rng.random() < 0.35,
            # no two lines of these inputs share a key, so every strategy must give the same database
            "strategy": rng.choice(["error", "error", "create_unique", "replace", "warning", "merge"])}


def check(model, case, d, V, where):
    tk, gk, sub = model.gtf["transcript_key"], model.gtf["gene_key"], model.gtf["subfeature"]
    feats = dict((f["id"], f) for f in d["features"])
    exp_ids = set(model.order)
    got_ids = set(feats)
    missing = sorted(exp_ids - got_ids)
    extra = sorted(got_ids - exp_ids)
    if missing:
        m = model.feats[missing[0]]
        V.append(viol("C03.derived", "%s: expected feature %r (%s) is not stored; missing=%r" % (where, missing[0], m["cols"][2], missing),
                      kind="missing_derived" if m.get("derived") else "missing_line", ftype=m["cols"][2]))
        return False
    if extra:
        f = feats[extra[0]]
        V.append(viol("C03.derived", "%s: unexpected feature %r (%s %s-%s source=%s); extra=%r" % (
            where, extra[0], f["cols"][2], f["cols"][3], f["cols"][4], f["cols"][1], extra), kind="unexpected_feature",
            ftype=f["cols"][2], derived=f["cols"][1] == "gffutils_derived"))
        return False
    for i in model.order:
        m, f = model.feats[i], feats[i]
        if m.get("derived"):
            if f["cols"][2] != m["cols"][2] or f["cols"][3] != m["cols"][3] or f["cols"][4] != m["cols"][4]:
                V.append(viol("C03.derived", "%s: derived %s %s spans %s-%s, its exons span %s-%s" % (
                    where, m["cols"][2], i, f["cols"][3], f["cols"][4], m["cols"][3], m["cols"][4]), kind="extent", ftype=m["cols"][2]))
                return False
            if f["cols"][0] not in m["seqids"] or f["cols"][6] not in m["strands"]:
                V.append(viol("C03.derived", "%s: derived %s on %s/%s, exons on %r/%r" % (where, i, f["cols"][0], f["cols"][6],
                                                                                     m["seqids"], m["strands"]), kind="seqid_strand"))
                return False
        else:
            if f["cols"] != m["cols"]:
                V.append(viol("C03.lines", "%s: line feature %s columns %r != %r" % (where, i, f["cols"], m["cols"]), kind="line_cols",
                              explicit=m["cols"][2] in ("gene", "transcript")))
                return False
    rv = model.rel_view()
    for i in model.order:
        for k, what in (("c1", "children level=1"), ("c2", "children level=2"), ("p1", "parents level=1"), ("p2", "parents level=2")):
            got, exp = d["rel"][i][k], rv[i][k]
            if got != exp:
                inv = sorted(set(got) - set(exp))
                lost = sorted(set(exp) - set(got))
                self_rel = i in inv
                V.append(viol("C03.hierarchy", "%s: %s of %s (%s) = %r, expected %r" % (where, what, i, model.feats[i]["cols"][2], got, exp),
                              kind="self_relation" if self_rel else ("lost" if lost and not inv else ("invented" if inv and not lost else "both")),
                              q=k, explicit=not model.feats[i].get("derived") and model.feats[i]["cols"][2] in ("gene", "transcript")))
                return False
    return True


def _pair(case, kw, id_spec, V, probes, journal, out):
    """Two GTF imports at the same time in two processes sharing the temp dir, released one file-system seam
    point at a time: both databases must satisfy the law for their own input."""
    import os
    import random
    from sim.sched import lockstep, sched_str

    inputs = [case["feats"], case["pair"]["feats"]]
    models = []
    for feats in inputs:
        m = Model("gtf")
        m.gtf["dig"] = bool(kw.get("disable_infer_genes"))
        m.gtf["dit"] = bool(kw.get("disable_infer_transcripts"))
        m.import_gtf(feats, strategy="error", id_spec=id_spec)
        models.append(m)
    rng = random.Random(case["pair"]["sched_seed"])
    with World("c03p_") as w:
        ns = []
        for i in range(2):
            os.makedirs(w.p("d%d" % i))
            ns.append(w.node(lockstep_kinds=("fs.tmpname", "fs.open", "fs.close", "fs.unlink")))

        def req(i):
            rq = {"op": "create", "h": "h", "db": "d%d/annotation.db" % i, "kw": dict(kw, merge_strategy="error"),
                  "data": G.source_spec(None, inputs[i], form="path", d=G.DEFAULT_GTF, name="pair%d.gtf" % i)}
            if case.get("tx_types"):
                rq["id_spec"] = id_spec
            return rq

        ph = lockstep(w, ns, req, rng, case["pair"]["policy"], None, journal, ())
        for i in range(2):
            r = ph["result"][i]
            if r is None or not r["ok"]:
                V.append(viol("C03.concurrent", "one of two concurrent GTF imports failed: %s %s (schedule %s)" % (
                    r and r.get("exc"), r and r.get("msg"), sched_str(ph["sched"])), kind="concurrent_import_failed"))
                continue
            d = w.call(ns[i], {"op": "dump", "h": "h"})
            if not d["ok"]:
                V.append(viol("C03.concurrent", "database of a concurrent import unreadable: %s" % d["msg"], kind="concurrent_unreadable"))
            else:
                check(models[i], case, d["dump"], V, "concurrent import %d (schedule %s)" % (i, sched_str(ph["sched"])))
        if ph["overlap"]:
            probes["two_imports_temp_lifetimes_overlapped"] = 1
        for n in ns:
            n.close()
        for k in ("nodes", "points", "ops"):
            out["stats"][k] = out["stats"].get(k, 0) + w.stats.get(k, 0)


def run(case):
    out = {"violations": [], "probes": {}, "stats": {}, "digests": set()}
    V = out["violations"]
    probes = out["probes"]
    journal = []
    model = Model("gtf")
    kw = dict(case["kw"])
    if case["custom"]:
        model.gtf.update({"transcript_key": "tid", "gene_key": "gid", "subfeature": "part"})
        kw.update({"gtf_transcript_key": "tid", "gtf_gene_key": "gid", "gtf_subfeature": "part"})
    model.gtf["dig"] = bool(kw.get("disable_infer_genes"))
    model.gtf["dit"] = bool(kw.get("disable_infer_transcripts"))
    id_spec = {"gene": model.gtf["gene_key"], "transcript": model.gtf["transcript_key"]}
    strategy0 = case.get("strategy", "error")
    if case.get("shared"):
        id_spec = dict(id_spec, exon="exon_id")
        strategy0 = "merge"
        probes["exons_shared_between_transcripts"] = 1
    if case.get("tx_types"):
        id_spec = dict(id_spec, mRNA=model.gtf["transcript_key"], ncRNA=model.gtf["transcript_key"])
        probes["transcript_records_typed_mRNA_keyed_by_transcript_id"] = 1
    model.import_gtf(case["feats"], strategy="merge" if case.get("shared") else "error", id_spec=id_spec)
    fault = case.get("fault")
    with World("c03_") as w:
        def call(n, op):
            r = w.call(n, op)
            journal.append((op["op"], core.digest({k: v for k, v in r.items() if k != "kinds"})))
            return r

        node = w.node()
        base_d = dict(G.DEFAULT_GTF, trail=False) if case.get("base_no_trailing_semicolon") else G.DEFAULT_GTF
        spec = G.source_spec(None, case["feats"], form=case["form"], d=base_d)
        req = {"op": "create", "h": "h", "db": "a.db", "data": spec, "kw": dict(kw, merge_strategy=strategy0)}
        if case["custom"] or case.get("shared") or case.get("tx_types"):
            req["id_spec"] = id_spec
        if fault:
            req["faults"] = [{"kind": fault["kind"], "nth": fault["nth"], "mode": fault["mode"]}]
        r = None
        try:
            r = call(node, req)
        except NodeDied:
            probes["crash_in_import"] = 1
        if r is not None and not r["ok"]:
            if r.get("injected"):
                probes["import_failed_loudly_on_fault"] = 1
            else:
                V.append(viol("C03.import", "create_db raised %s: %s" % (r["exc"], r["msg"]), kind="import_failed", exc=r["exc"]))
        elif r is not None:
            if r.get("fired"):
                probes["fault_swallowed_import_acknowledged"] = 1
            if r["kinds"].get("fs.tmpname", 0) > (1 if case["form"] != "string" else 2):
                pass
            d = call(node, {"op": "dump", "h": "h"})
            if not d["ok"]:
                V.append(viol("C03.import", "reading back failed: %s %s" % (d["exc"], d["msg"]), kind="read_failed"))
            elif check(model, case, d["dump"], V, "returned handle"):
                # retrievable by that id
                for i in model.order:
                    if model.feats[i].get("derived") or model.feats[i]["cols"][2] in ("gene", "transcript"):
                        g = call(node, {"op": "get", "h": "h", "key": i})
                        if not g["ok"] or g["f"]["id"] != i:
                            V.append(viol("C03.derived", "db[%r] does not return the feature" % i, kind="not_retrievable"))
                            break
                for ui, upd in enumerate(case.get("updates") or []):
                    if V:
                        break
                    ukw = dict(kw, merge_strategy=case.get("strategy", "error"), make_backup=False)
                    pre_ids = set(model.order)
                    if upd.get("fail_first_at") is not None:
                        ukw["checklines"] = upd.get("checklines", 0)
                        bad = G.source_spec(None, upd["feats"], form="gen", d=G.DEFAULT_GTF)
                        bad["fail_at"] = upd["fail_first_at"]
                        fr = call(node, {"op": "update", "h": "h", "data": bad, "kw": ukw})
                        if fr["ok"]:
                            V.append(viol("C03.update", "an update whose source fails was acknowledged", kind="failure_swallowed"))
                            break
                        call(node, {"op": "gc"})
                        probes["update_failed_then_retried_on_same_handle"] = 1
                    ud = base_d
                    if upd.get("other_punctuation"):
                        # the update file is written with other punctuation than the imported one (trailing semicolon or not)
                        ud = dict(G.DEFAULT_GTF, trail=not base_d.get("trail", True))
                        probes["update_in_other_gtf_punctuation"] = 1
                    ur = call(node, {"op": "update", "h": "h", "data": G.source_spec(None, upd["feats"], form=upd["form"], d=ud), "kw": ukw})
                    if not ur["ok"]:
                        V.append(viol("C03.update", "update (%s) raised %s: %s" % (upd["kind"], ur["exc"], ur["msg"]), kind="update_failed",
                                      exc=ur["exc"], retried=upd.get("fail_first_at") is not None))
                        break
                    model.import_gtf(upd["feats"], strategy="error", id_spec=id_spec)
                    issued = list(model.auto_issued)
                    du = call(node, {"op": "dump", "h": "h"})
                    if not du["ok"]:
                        V.append(viol("C03.update", "reading back after update failed: %s" % du["msg"], kind="read_failed"))
                        break
                    if upd.get("fail_first_at") is not None:
                        # the failed attempt legitimately advanced the handle's in-memory counters: auto keys of the
                        # retry may skip numbers (never reuse); pair them by base and order
                        from checks.c10 import _rename_many, AUTO_RE
                        new_store = [f["id"] for f in du["dump"]["features"] if f["id"] not in pre_ids]
                        ren = {}
                        for base in sorted(set(b for _, b, _ in issued)):
                            mine = [k for k, b, _ in issued if b == base and k in model.feats and k not in pre_ids]
                            theirs = [x for x in new_store if AUTO_RE.match(x) and AUTO_RE.match(x).group(1) == base]
                            for a, b_ in zip(mine, theirs):
                                if a != b_:
                                    if int(AUTO_RE.match(b_).group(2)) <= int(AUTO_RE.match(a).group(2)) - 1 and b_ in pre_ids:
                                        continue
                                    ren[a] = b_
                        if ren:
                            _rename_many(model, ren)
                            for b_ in ren.values():
                                mm = AUTO_RE.match(b_)
                                model.counters[mm.group(1)] = max(model.counters.get(mm.group(1), 0), int(mm.group(2)))
                    if upd["kind"] == "new_transcript_in_old_gene":
                        probes["update_adds_transcript_to_stored_gene"] = 1
                    if not check(model, case, du["dump"], V, "after update #%d (%s%s)" % (ui, upd["kind"], ", retried after a source failure" if upd.get("fail_first_at") is not None else "")):
                        break
                if not V and case.get("failed_update_probe") and not case.get("custom") and not case.get("shared") and not case.get("tx_types"):
                    from sim.probes import failed_update_probe
                    failed_update_probe(w, call, node, "h", "a.db", True, V, viol, "C03.update", probes)
                if V:
                    pass
                elif case["after"] == "reopen":
                    call(node, {"op": "drop", "h": "h"})
                    call(node, {"op": "gc"})
                    call(node, {"op": "open", "h": "h", "db": "a.db"})
                    d2 = call(node, {"op": "dump", "h": "h"})
                    if d2["ok"]:
                        check(model, case, d2["dump"], V, "after reopen")
                elif case["after"] == "restart":
                    node.close()
                    node = w.node()
                    call(node, {"op": "open", "h": "h", "db": "a.db"})
                    d2 = call(node, {"op": "dump", "h": "h"})
                    if d2["ok"]:
                        check(model, case, d2["dump"], V, "fresh process")
                    else:
                        V.append(viol("C03.import", "fresh process cannot read: %s" % d2["msg"], kind="read_failed"))
                if not V and case.get("late_update") and not case.get("failed_update_probe") and not case.get("custom") and not case.get("shared") and not case.get("tx_types") \
                        and node.alive:
                    # a further update through whatever handle is open now (possibly one opened after the earlier updates): the
                    # law holds for its lines too
                    lf = [G.mf(["chrL", "src", "exon", 100, 200, ".", "+", "."], [["gene_id", ["LG1"]], ["transcript_id", ["LT1"]]]),
                          G.mf(["chrL", "src", "exon", 300, 450, ".", "+", "."], [["gene_id", ["LG1"]], ["transcript_id", ["LT1"]]])]
                    lr = call(node, {"op": "update", "h": "h", "data": G.source_spec(None, lf, form=case["late_update"], d=G.DEFAULT_GTF),
                                     "kw": dict(kw, merge_strategy=case.get("strategy", "error"), make_backup=False)})
                    if not lr["ok"]:
                        V.append(viol("C03.update", "a later update raised %s: %s" % (lr["exc"], lr["msg"]), kind="update_failed", exc=lr["exc"], retried=False))
                    else:
                        model.import_gtf(lf, strategy="error", id_spec=id_spec)
                        dl = call(node, {"op": "dump", "h": "h"})
                        if dl["ok"]:
                            check(model, case, dl["dump"], V, "after a later update (handle state: %s)" % case["after"])
                            probes["update_after_%s" % case["after"]] = 1
                out["digests"].add(core.digest(d["dump"]["features"]))
        out["stats"] = w.stats
    if case.get("pair") and not V and not out.get("discarded"):
        _pair(case, kw, id_spec, V, probes, journal, out)
    out["trace_hash"] = core.digest(journal)
    out["nontrivial"] = any(m["cols"][2] == "transcript" for m in model.feats.values())
    if len(case["feats"]) > 300:
        probes["long_input_over_300_lines"] = 1
    out["sample"] = {"lines": G.lines_of(case["feats"], G.DEFAULT_GTF)[:8], "kw": kw, "form": case["form"], "fault": fault}
    return out
