"""Debug driver: run N cases of a check in-process and print violations."""
import os, sys, time, json
if os.environ.get("PYTHONHASHSEED") != "0":
    os.environ["PYTHONHASHSEED"] = "0"
    os.execve(sys.executable, [sys.executable] + sys.argv, os.environ)
sys.path.insert(0, os.path.dirname(os.path.dirname(os.path.abspath(__file__))))
from sim import seams, core, runner
seams.install()
import gffutils
cid = sys.argv[1].upper(); n0 = int(sys.argv[2]); n1 = int(sys.argv[3]); tier = sys.argv[4] if len(sys.argv) > 4 else "quick"
seed = int(os.environ.get("VERIF_SEED", "1"))
check = runner._load_check(cid)
t = time.time(); seen = {}
tot = 0
for i in range(n0, n1):
    case = runner.make_case(check, cid, seed, i, tier)
    out = runner.run_one(check, case)
    tot += 1
    for v in out["violations"]:
        k = runner.sig_key(v)
        if k not in seen:
            seen[k] = (i, v)
            print("run", i, k, "\n   ", v["detail"][:900])
            if os.environ.get("DBG_CASE"):
                print(json.dumps(v.get("case") or case)[:3000])
print("runs", tot, "distinct sigs", len(seen), "wall %.1f" % (time.time() - t), "probes", out.get("probes"))
