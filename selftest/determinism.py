#!/venv/bin/python
"""
Determinism self-test: for each check, a block of run indices is executed
  A: PYTHONHASHSEED=0, forward order        B: the same again in a fresh interpreter
  C: PYTHONHASHSEED=0, reverse order (cross-run leakage), split over 4 parallel processes
  D: PYTHONHASHSEED=<other> (informational: where gffutils itself is hash-order dependent)
and the per-run trace hashes (digest of every op result and seam-point log) are diffed.
A, B and C must agree exactly.  usage: determinism.py [N per check] [IDs...]
"""
import json, os, subprocess, sys
from concurrent.futures import ThreadPoolExecutor
HERE = os.path.dirname(os.path.abspath(__file__))
ALL = ["C01", "C02", "C03", "C04", "C05", "C06", "C10", "C11", "C13", "C14", "C16", "C19", "C20"]


def hashes(cid, a, b, order, hs):
    env = dict(os.environ, PYTHONHASHSEED=str(hs))
    p = subprocess.run([sys.executable, os.path.join(HERE, "_hashes.py"), cid, str(a), str(b), order], env=env,
                       capture_output=True, text=True, timeout=3000)
    for line in p.stdout.splitlines():
        if line.startswith("HASHES "):
            return json.loads(line[7:])
    raise RuntimeError("no hashes from %s: %s" % (cid, p.stderr[-500:]))


def main():
    args = sys.argv[1:]
    n = int(args[0]) if args and args[0].isdigit() else 48
    ids = [a for a in args if not a.isdigit()] or ALL
    bad = 0
    report = {}
    with ThreadPoolExecutor(max_workers=8) as ex:
        for cid in ids:
            nn = n if cid != "C10" else max(8, n // 4)
            fa = ex.submit(hashes, cid, 0, nn, "fwd", 0)
            fb = ex.submit(hashes, cid, 0, nn, "fwd", 0)
            q = max(1, nn // 4)
            fcs = [ex.submit(hashes, cid, s, min(nn, s + q), "rev", 0) for s in range(0, nn, q)]
            fd = ex.submit(hashes, cid, 0, nn, "fwd", 5)
            A, B = fa.result(), fb.result()
            C = {}
            for f in fcs:
                C.update(f.result())
            D = fd.result()
            dAB = [i for i in A if A[i] != B.get(i)]
            dAC = [i for i in A if A[i] != C.get(i)]
            dAD = [i for i in A if A[i] != D.get(i)]
            report[cid] = {"runs": nn, "A!=B": dAB, "A!=C(reverse,4 procs)": dAC, "differs_under_other_hashseed": len(dAD)}
            ok = not dAB and not dAC
            bad += 0 if ok else 1
            print("%s runs=%d same-seed-twice:%s reverse/4-procs:%s other-hashseed-differs:%d/%d" % (
                cid, nn, "OK" if not dAB else "DIFF %s" % dAB[:5], "OK" if not dAC else "DIFF %s" % dAC[:5], len(dAD), nn))
    with open(os.path.join(HERE, "determinism_report.json"), "w") as fh:
        json.dump(report, fh, indent=1, sort_keys=True)
    return 1 if bad else 0


if __name__ == "__main__":
    sys.exit(main())
