"""Prints {run index: trace hash} for a check; helper of determinism.py."""
import json, os, sys
ROOT = os.path.dirname(os.path.dirname(os.path.abspath(__file__)))
sys.path.insert(0, ROOT)
from sim import seams, core, runner
seams.install()
import gffutils
cid = sys.argv[1]; a = int(sys.argv[2]); b = int(sys.argv[3]); order = sys.argv[4] if len(sys.argv) > 4 else "fwd"
seed = int(os.environ.get("VERIF_SEED", "1"))
check = runner._load_check(cid)
idx = list(range(a, b))
if order == "rev":
    idx.reverse()
out = {}
for i in idx:
    case = runner.make_case(check, cid, seed, i, "quick")
    o = runner.run_one(check, case)
    out[str(i)] = [o.get("trace_hash"), sorted(runner.sig_key(v) for v in o["violations"])]
print("HASHES " + json.dumps(out, sort_keys=True))
