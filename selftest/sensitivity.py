#!/venv/bin/python
"""
Sensitivity self-test: each mutant below is a realistic, compiling change to gffutils that
breaks one property.  It is applied to a scratch copy of /repo (outside /repo and /verif),
the pinned test suite is run against the copy, and the relevant check(s) must report a
VIOLATION within the quick budget.  The scratch copy is deleted afterwards.

usage: sensitivity.py [mutant-name ...]      (default: all)
Writes selftest/sensitivity_report.json
"""
import json
import os
import shutil
import subprocess
import sys

HERE = os.path.dirname(os.path.abspath(__file__))
ROOT = os.path.dirname(HERE)
SCRATCH = "/dev/shm/gffsim_mut" if os.path.isdir("/dev/shm") else "/var/tmp/gffsim_mut"

# (name, properties expected to catch it, file, old, new)
M = [
    ("delete_no_commit", ["C10"], "interface.py", "            c.execute(query2, (_id, _id))\n        self.conn.commit()\n",
     "            c.execute(query2, (_id, _id))\n"),
    ("add_relation_no_commit", ["C10"], "interface.py", "            self.conn.rollback()\n            raise\n\n        self.conn.commit()\n",
     "            self.conn.rollback()\n            raise\n\n"),
    ("backup_after_write", ["C10"], "interface.py",
     "        if make_backup:\n            if isinstance(self.dbfn, str):\n                shutil.copy2(self.dbfn, self.dbfn + \".bak\")\n\n        c = self.conn.cursor()\n        query1",
     "        c = self.conn.cursor()\n        query1"),
    ("no_autoincrements_to_updater", ["C10", "C04"], "interface.py", "        kwargs[\"_autoincrements\"] = self._autoincrements\n",
     "        kwargs[\"_autoincrements\"] = dict(self._autoincrements)\n"),
    ("finalize_skips_counters", ["C10", "C04"], "create.py", "            INSERT OR REPLACE INTO autoincrements VALUES (?, ?)\n            \"\"\",\n            list(self._autoincrements.items()),",
     "            INSERT OR REPLACE INTO autoincrements VALUES (?, ?)\n            \"\"\",\n            [],"),
    ("delete_parent_rows_only", ["C10"], "interface.py", "DELETE FROM relations WHERE parent = ? OR child = ?", "DELETE FROM relations WHERE parent = ? OR parent = ?"),
    ("first_parent_only", ["C02", "C10"], "create.py", "                for parent in f.attributes[\"Parent\"]:\n", "                for parent in f.attributes[\"Parent\"][:1]:\n"),
    ("flipped_join_level2", ["C02"], "create.py", "(SELECT child FROM relations\n                            WHERE parent = ? AND level = 1)",
     "(SELECT parent FROM relations\n                            WHERE child = ? AND level = 1)"),
    ("fixed_tmp_name", ["C20"], "create.py", "        tmp = tempfile.NamedTemporaryFile(delete=False, suffix=suffix).name\n        with open(tmp, \"w\") as fout:\n\n            # Here we look",
     "        tmp = os.path.join(tempfile.gettempdir(), \"gffutils_relations\" + suffix)\n        with open(tmp, \"w\") as fout:\n\n            # Here we look"),
    ("mktemp_style_name", ["C20"], "create.py", "        tmp = tempfile.NamedTemporaryFile(delete=False, suffix=suffix).name\n        with open(tmp, \"w\") as fout:\n            self._tmpfile = tmp",
     "        tmp = os.path.join(tempfile.gettempdir(), \"tmp\" + next(tempfile._get_candidate_names()) + suffix)\n        with open(tmp, \"w\") as fout:\n            self._tmpfile = tmp"),
    ("missing_unlink_gff", ["C20"], "create.py", "        self.conn.commit()\n\n        if not self._keep_tempfiles:\n            os.unlink(fout.name)\n",
     "        self.conn.commit()\n\n        if self._keep_tempfiles is None:\n            os.unlink(fout.name)\n"),
    ("cleanup_by_glob", ["C20"], "create.py", "        self.conn.commit()\n        if not self._keep_tempfiles:\n            os.unlink(fout.name)\n",
     "        self.conn.commit()\n        if not self._keep_tempfiles:\n            import glob\n            for _fn in glob.glob(os.path.join(tempfile.gettempdir(), \"*.gffutils\")):\n                os.unlink(_fn)\n"),
    ("peek_off_by_one", ["C13"], "iterators.py", "        for i, feature in enumerate(self.data):\n            initial.append(feature)\n            if i == n:\n                break\n\n        # If self.data is generator-like",
     "        for i, feature in enumerate(self.data):\n            if i == n:\n                break\n            initial.append(feature)\n\n        # If self.data is generator-like"),
    ("chain_omitted", ["C13"], "iterators.py", "            self.data = itertools.chain(initial, self.data)", "            self.data = iter(self.data)"),
    ("transform_in_peek", ["C13"], "iterators.py", "        for i, feature in enumerate(self.data):\n            initial.append(feature)\n            if i == n:\n                break\n\n        # If",
     "        for i, feature in enumerate(self.data):\n            if self.transform:\n                feature = self.transform(feature) or feature\n            initial.append(feature)\n            if i == n:\n                break\n\n        # If"),
    ("replace_as_warning", ["C05", "C11"], "create.py", "        elif merge_strategy == \"replace\":\n            return f, merge_strategy", "        elif merge_strategy == \"replace\":\n            return None, \"warning\""),
    ("duplicates_not_consulted", ["C05"], "create.py", "        for i in results:\n            candidates.append(feature.Feature(dialect=self.iterator.dialect, **i))", "        for i in []:\n            candidates.append(feature.Feature(dialect=self.iterator.dialect, **i))"),
    ("stale_bin_in_astuple", ["C06"], "feature.py", "                helpers._jsonify(self.extra),\n                self.calc_bin(),\n            )\n        return (", "                helpers._jsonify(self.extra),\n                self.bin,\n            )\n        return ("),
    ("limit_strict_less", ["C06"], "helpers.py", "\"features.seqid = ? AND features.start <= ? \" \"AND features.end >= ?\"", "\"features.seqid = ? AND features.start < ? \" \"AND features.end >= ?\""),
    ("featuretype_strand_arg_order", ["C11"], "helpers.py", "    if strand:\n        # e.g., \"strand = '+'\"\n        d[\"STRAND\"] = \"features.strand = ?\"\n        args.append(strand)",
     "    if strand:\n        # e.g., \"strand = '+'\"\n        d[\"STRAND\"] = \"features.strand = ?\"\n        args.insert(0, strand)"),
    ("reverse_ignored", ["C11"], "helpers.py", "        if reverse:\n            direction = \"DESC\"", "        if reverse and len(_order_by) > 64:\n            direction = \"DESC\""),
    ("force_check_removed", ["C19"], "create.py", "        if force:\n            if os.path.exists(dbfn):\n                os.unlink(dbfn)", "        if os.path.exists(dbfn) and isinstance(dbfn, str) and dbfn != \":memory:\":\n            os.unlink(dbfn)"),
    ("read_calls_analyze", ["C19"], "interface.py", "        c = self.conn.cursor()\n        if featuretype is not None:\n            c.execute(\n                \"\"\"\n                SELECT count() FROM features\n                WHERE featuretype = ?",
     "        self.analyze()\n        c = self.conn.cursor()\n        if featuretype is not None:\n            c.execute(\n                \"\"\"\n                SELECT count() FROM features\n                WHERE featuretype = ?"),
    ("merge_all_forgets_relations", ["C16"], "interface.py", "                        for child in merged.children:\n                            self.add_relation(merged, child, 1, child_func=assign_child)",
     "                        for child in merged.children[:1]:\n                            self.add_relation(merged, child, 1, child_func=assign_child)"),
    ("gtf_extent_all_children", ["C03"], "create.py", "                        WHERE parent = ? AND featuretype == ?\n                        \"\"\",\n                        (transcript_id, self.subfeature),",
     "                        WHERE parent = ? AND featuretype != ?\n                        \"\"\",\n                        (transcript_id, \"\"),"),
    ("directive_list_rebound", ["C14"], "iterators.py", "        del self.directives[:]\n", "        self.directives = []\n"),
    ("comment_is_directive", ["C14"], "iterators.py", "                if line.startswith(\"##\"):\n                    self._directive_handler(line)", "                if line.startswith(\"#\") and len(line) > 2:\n                    self._directive_handler(line)"),
    ("default_dialect_persisted", ["C01"], "create.py", "version=version.version, dialect=helpers._jsonify(self.iterator.dialect)",
     "version=version.version, dialect=helpers._jsonify(constants.dialect)"),
    ("id_spec_list_no_fallthrough", ["C04"], "create.py", "                    try:\n                        return f.attributes[k][0]\n                    except (KeyError, IndexError):\n                        pass",
     "                    try:\n                        return f.attributes[k][0]\n                    except (KeyError, IndexError):\n                        break"),
    ("merge_children_bp_sum", ["C16"], "interface.py", "        if merge:\n            children = self.merge(children, merge_criteria=merge_criteria)", "        if merge and False:\n            children = self.merge(children, merge_criteria=merge_criteria)"),
]


def run(cmd, env=None, timeout=1800):
    p = subprocess.run(cmd, shell=True, env=env, capture_output=True, text=True, timeout=timeout)
    return p.returncode, p.stdout + p.stderr


def main():
    want = set(sys.argv[1:])
    report = []
    os.makedirs(SCRATCH, exist_ok=True)
    for name, props, fn, old, new in M:
        if want and name not in want:
            continue
        d = os.path.join(SCRATCH, name)
        shutil.rmtree(d, ignore_errors=True)
        os.makedirs(d)
        shutil.copytree("/repo/gffutils", os.path.join(d, "gffutils"))
        p = os.path.join(d, "gffutils", fn)
        s = open(p).read()
        if s.count(old) != 1:
            report.append({"mutant": name, "status": "PATCH-DOES-NOT-APPLY", "count": s.count(old)})
            print("%-32s patch does not apply (%d matches)" % (name, s.count(old)))
            shutil.rmtree(d, ignore_errors=True)
            continue
        open(p, "w").write(s.replace(old, new))
        env = dict(os.environ, PYTHONPATH=d, VERIF_REPO=d + "/", PYTHONHASHSEED="0")
        rc, out = run("cd %s && /venv/bin/python -m pytest -q -p no:cacheprovider --timeout=900 --continue-on-collection-errors gffutils 2>&1 | tail -1" % d, env)
        tests = out.strip().splitlines()[-1] if out.strip() else "?"
        passed74 = " 74 passed" in (" " + tests)
        res = {}
        for cid in props:
            rc, out = run("cd %s && /venv/bin/python checks/run.py %s --tier quick" % (ROOT, cid),
                          dict(env, VERIF_EVIDENCE_DIR=os.path.join(d, "evidence"), VERIF_REPLAY_DIR=os.path.join(d, "replays"), VERIF_SHRINK="40"))
            viol = [l for l in out.splitlines() if l.startswith("violation:")]
            res[cid] = {"rc": rc, "caught": rc == 1, "first": viol[0][:300] if viol else None}
        caught = any(v["caught"] for v in res.values())
        report.append({"mutant": name, "file": fn, "tests": tests, "tests_still_pass": passed74, "checks": res, "caught": caught})
        print("%-32s tests:%-28s %s" % (name, tests[:28], " ".join("%s:%s" % (c, "CAUGHT" if v["caught"] else "missed(rc=%d)" % v["rc"]) for c, v in res.items())))
        shutil.rmtree(d, ignore_errors=True)
    if not want:
        with open(os.path.join(HERE, "sensitivity_report.json"), "w") as fh:
            json.dump(report, fh, indent=1)
    missed = [r["mutant"] for r in report if not r.get("caught")]
    print("mutants: %d, caught: %d, missed/unapplied: %s" % (len(report), len(report) - len(missed), missed))
    return 0 if not missed else 1


if __name__ == "__main__":
    sys.exit(main())
