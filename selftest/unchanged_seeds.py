#!/venv/bin/python
"""
No-false-alarm self-test over seeds: every quick check is run on the UNCHANGED tree under
several VERIF_SEED values (evidence and replays go to a scratch directory); each must
exit 0 without a VIOLATION line.  usage: unchanged_seeds.py [seed ...]
writes selftest/unchanged_seeds_report.json
"""
import json
import os
import shutil
import subprocess
import sys

HERE = os.path.dirname(os.path.abspath(__file__))
ROOT = os.path.dirname(HERE)
ALL = ["C01", "C02", "C03", "C04", "C05", "C06", "C10", "C11", "C13", "C14", "C16", "C19", "C20"]
SCRATCH = "/dev/shm/gffsim_seeds" if os.path.isdir("/dev/shm") else "/var/tmp/gffsim_seeds"


def main():
    seeds = [int(a) for a in sys.argv[1:]] or [2, 3, 5, 8, 13]
    shutil.rmtree(SCRATCH, ignore_errors=True)
    os.makedirs(SCRATCH)
    rep = []
    bad = 0
    for sd in seeds:
        for cid in (os.environ.get("UNCHANGED_CHECKS", "").split() or ALL):
            env = dict(os.environ, VERIF_SEED=str(sd), VERIF_EVIDENCE_DIR=os.path.join(SCRATCH, "ev"), VERIF_REPLAY_DIR=os.path.join(SCRATCH, "rp"))
            p = subprocess.run("cd %s && /venv/bin/python checks/run.py %s --tier quick" % (ROOT, cid), shell=True, env=env,
                               capture_output=True, text=True, timeout=1200)
            out = p.stdout + p.stderr
            viol = [l for l in out.splitlines() if l.startswith("VIOLATION") or l.startswith("violation:") or l.startswith("HARNESS-ERROR")]
            summ = [l for l in out.splitlines() if l.startswith(cid + " quick:")]
            rep.append({"seed": sd, "check": cid, "rc": p.returncode, "lines": viol[:4], "summary": summ[-1] if summ else None})
            ok = p.returncode == 0 and not viol
            bad += 0 if ok else 1
            print("seed=%-3d %s rc=%d %s %s" % (sd, cid, p.returncode, "ok" if ok else "ALARM", (viol[:1] or [""])[0][:300]))
            sys.stdout.flush()
    rp = os.path.join(HERE, "unchanged_seeds_report.json")
    if os.environ.get("UNCHANGED_CHECKS") and os.path.exists(rp):
        # a partial re-run (only the checks that changed) replaces those entries and keeps the others
        new = dict(((r["seed"], r["check"]), r) for r in rep)
        rep = [new.pop((r["seed"], r["check"]), r) for r in json.load(open(rp))] + list(new.values())
    with open(rp, "w") as fh:
        json.dump(rep, fh, indent=1)
    shutil.rmtree(SCRATCH, ignore_errors=True)
    print("alarms: %d of %d runs" % (bad, len(rep)))
    return 1 if bad else 0


if __name__ == "__main__":
    sys.exit(main())
