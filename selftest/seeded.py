#!/venv/bin/python
"""
Evaluate the independent breaking changes kept under /verif/seeded/<name>/
(patch.diff, demo.py, meta.json) against the checks.

For each change: copy /repo/gffutils to a scratch dir outside /repo and /verif, apply the
patch there, (1) run the pinned test suite on the copy, (2) run the demonstration with and
without the change, (3) run the quick check of the property the change targets (and, with
--all, every check).  Writes seeded/results.json and seeded/README.md.

usage: seeded.py [--all] [--tier quick|thorough] [name ...]
"""
import json
import os
import shutil
import subprocess
import sys

HERE = os.path.dirname(os.path.abspath(__file__))
ROOT = os.path.dirname(HERE)
SEEDED = os.path.join(ROOT, "seeded")
SCRATCH = "/dev/shm/gffsim_seeded" if os.path.isdir("/dev/shm") else "/var/tmp/gffsim_seeded"
ALL = ["C01", "C02", "C03", "C04", "C05", "C06", "C10", "C11", "C13", "C14", "C16", "C19", "C20"]


def sh(cmd, env=None, timeout=2400):
    p = subprocess.run(cmd, shell=True, env=env, capture_output=True, text=True, timeout=timeout)
    return p.returncode, p.stdout + p.stderr


def evaluate(name, run_all=False, tier="quick", vseed=None):
    d = os.path.join(SEEDED, name)
    meta = json.load(open(os.path.join(d, "meta.json")))
    s = os.path.join(SCRATCH, name)
    shutil.rmtree(s, ignore_errors=True)
    os.makedirs(s)
    shutil.copytree("/repo/gffutils", os.path.join(s, "gffutils"))
    rc, out = sh("cd %s && patch -p1 --no-backup-if-mismatch < %s" % (s, os.path.join(d, "patch.diff")))
    res = {"name": name, "property": meta["property"], "summary": meta.get("summary"), "needs": meta.get("needs")}
    if rc != 0:
        res["status"] = "PATCH-DOES-NOT-APPLY"
        res["patch_output"] = out[-400:]
        shutil.rmtree(s, ignore_errors=True)
        return res
    env = dict(os.environ, PYTHONPATH=s, VERIF_REPO=s + "/", PYTHONHASHSEED="0")
    if vseed is not None:
        env["VERIF_SEED"] = str(vseed)
    os.makedirs(os.path.join(s, "pytmp"), exist_ok=True)  # the suite leaves temp files behind: keep them in the scratch copy
    rc, out = sh("cd %s && /venv/bin/python -m pytest -q -p no:cacheprovider --timeout=900 --continue-on-collection-errors gffutils 2>&1 | tail -1" % s, dict(env, TMPDIR=os.path.join(s, "pytmp")))
    res["tests"] = out.strip().splitlines()[-1] if out.strip() else "?"
    res["tests_unchanged"] = " 74 passed" in " " + res["tests"] and "2 failed" in res["tests"]
    demo = os.path.join(d, "demo.py")
    rc_with, _ = sh("cd %s && /venv/bin/python %s" % (s, demo), env, timeout=600)
    rc_without, _ = sh("cd /tmp && /venv/bin/python %s" % demo, dict(os.environ, PYTHONPATH="/repo"), timeout=600)
    res["demo_fails_with_change"] = rc_with != 0
    res["demo_passes_without"] = rc_without == 0
    checks = ALL if run_all else sorted(set([meta["property"]] + list(meta.get("also_check", []))))
    res["checks"] = {}
    for cid in checks:
        rc, out = sh("cd %s && /venv/bin/python checks/run.py %s --tier %s" % (ROOT, cid, tier),
                     dict(env, VERIF_EVIDENCE_DIR=os.path.join(s, "evidence"), VERIF_REPLAY_DIR=os.path.join(s, "replays"),
                          VERIF_SHRINK="30"))
        viol = [l for l in out.splitlines() if l.startswith("violation:")]
        res["checks"][cid] = {"rc": rc, "caught": rc == 1, "first": viol[0][:400] if viol else None}
    res["caught_by"] = sorted(c for c, v in res["checks"].items() if v["caught"])
    shutil.rmtree(s, ignore_errors=True)
    return res


def main():
    args = sys.argv[1:]
    run_all = "--all" in args
    tier = "quick"
    if "--tier" in args:
        tier = args[args.index("--tier") + 1]
    vseed = None
    if "--seed" in args:
        vseed = int(args[args.index("--seed") + 1])
        args = [a for i, a in enumerate(args) if a != "--seed" and (i == 0 or args[i - 1] != "--seed")]
    names = [a for a in args if not a.startswith("--") and a not in ("quick", "thorough")]
    if not names:
        names = sorted(n for n in os.listdir(SEEDED) if os.path.isdir(os.path.join(SEEDED, n)))
    os.makedirs(SCRATCH, exist_ok=True)
    results = []
    for n in names:
        r = evaluate(n, run_all, tier, vseed)
        results.append(r)
        print("%-28s %-4s tests:%s demo(with/without):%s/%s caught_by:%s" % (
            n, r["property"], "same" if r.get("tests_unchanged") else r.get("tests", r.get("status")),
            "fails" if r.get("demo_fails_with_change") else "PASSES", "passes" if r.get("demo_passes_without") else "FAILS",
            r.get("caught_by")))
    if vseed is not None:
        with open(os.path.join(SEEDED, "results_seed%d.json" % vseed), "w") as fh:
            json.dump([{"name": r["name"], "property": r["property"], "caught_by": r.get("caught_by")} for r in results], fh, indent=1)
        missed = [r["name"] for r in results if not r.get("caught_by")]
        print("VERIF_SEED=%d: %d of %d caught; missed: %s" % (vseed, len(results) - len(missed), len(results), missed))
        return 0
    old = {}
    if os.path.exists(os.path.join(SEEDED, "results.json")):
        old = dict((r["name"], r) for r in json.load(open(os.path.join(SEEDED, "results.json"))))
    for r in results:
        prev = old.get(r["name"])
        if prev and not run_all and prev.get("checks"):
            merged = dict(prev["checks"])
            merged.update(r["checks"])
            r["checks"] = merged
            r["caught_by"] = sorted(c for c, v in merged.items() if v["caught"])
        old[r["name"]] = r
    allr = [old[k] for k in sorted(old)]
    with open(os.path.join(SEEDED, "results.json"), "w") as fh:
        json.dump(allr, fh, indent=1)
    with open(os.path.join(SEEDED, "README.md"), "w") as fh:
        fh.write("# Independent breaking changes and which check catches which\n\n"
                 "Each directory holds a change written by a fresh sub-agent that saw only the property text and a scratch worktree "
                 "(`patch.diff`, `demo.py`, `meta.json`). Regenerate with `selftest/seeded.py [--all]`. `tests` = the pinned suite still "
                 "gives 74 passed with the change; `demo` = the demonstration fails with / passes without the change.\n\n"
                 "| change | property | what it does | needs | tests | demo | caught by (quick) | not caught by own-property check? |\n|---|---|---|---|---|---|---|---|\n")
        for r in allr:
            own = r.get("checks", {}).get(r["property"], {})
            fh.write("| %s | %s | %s | %s | %s | %s | %s | %s |\n" % (
                r["name"], r["property"], (r.get("summary") or "").replace("|", "/")[:160], (r.get("needs") or "").replace("|", "/")[:160],
                "same" if r.get("tests_unchanged") else "CHANGED", "ok" if r.get("demo_fails_with_change") and r.get("demo_passes_without") else "NOT CONFIRMED",
                ", ".join(r.get("caught_by", [])) or "-", "" if own.get("caught") else "MISSED"))
    return 0


if __name__ == "__main__":
    sys.exit(main())
