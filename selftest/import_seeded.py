#!/usr/bin/env python3
"""Copy sub-agent outputs /tmp/wt_<ID>/out/{bugN.diff,demoN.py,metaN.json} to /verif/seeded/<ID>-<N>/"""
import json, os, shutil, sys
PREFIX = os.environ.get("WT_PREFIX", "/tmp/wt_")
OFFSET = int(os.environ.get("NUM_OFFSET", "0"))
for cid in sys.argv[1:]:
    out = "%s%s/out" % (PREFIX, cid)
    for n in (1, 2, 3):
        b = os.path.join(out, "bug%d.diff" % n)
        if not os.path.exists(b):
            continue
        d = "/verif/seeded/%s-%d" % (cid, n + OFFSET)
        os.makedirs(d, exist_ok=True)
        shutil.copy(b, os.path.join(d, "patch.diff"))
        shutil.copy(os.path.join(out, "demo%d.py" % n), os.path.join(d, "demo.py"))
        try:
            meta = json.load(open(os.path.join(out, "meta%d.json" % n)))
        except Exception:
            meta = {"property": cid, "summary": "?", "needs": "?"}
        meta["property"] = cid
        meta["origin"] = "fresh sub-agent given only the property text and a scratch worktree" + (
            " (%s)" % os.environ["ROUND_NOTE"] if os.environ.get("ROUND_NOTE") else "")
        json.dump(meta, open(os.path.join(d, "meta.json"), "w"), indent=1)
        print("imported", d)
