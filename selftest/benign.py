#!/venv/bin/python
"""
No-false-alarm self-test: each change below is a plausible refactor / improvement of
gffutils under which every listed property still holds.  It is applied to a scratch copy
(outside /repo and /verif) and ALL quick checks must stay green (exit 0, no VIOLATION).

usage: benign.py [name ...]          writes selftest/benign_report.json
"""
import json
import os
import shutil
import subprocess
import sys

HERE = os.path.dirname(os.path.abspath(__file__))
ROOT = os.path.dirname(HERE)
SCRATCH = "/dev/shm/gffsim_benign" if os.path.isdir("/dev/shm") else "/var/tmp/gffsim_benign"
ALL = ["C01", "C02", "C03", "C04", "C05", "C06", "C10", "C11", "C13", "C14", "C16", "C19", "C20"]

# (name, [(file, old, new), ...])
B = [
    ("relations_executemany", [("create.py",
      "            if \"Parent\" in f.attributes:\n                for parent in f.attributes[\"Parent\"]:\n                    c.execute(\n                        \"\"\"\n                        INSERT OR IGNORE INTO relations VALUES\n                        (?, ?, 1)\n                        \"\"\",\n                        (parent, f.id),\n                    )\n",
      "            if \"Parent\" in f.attributes:\n                c.executemany(\n                    \"INSERT OR IGNORE INTO relations VALUES (?, ?, 1)\",\n                    [(parent, f.id) for parent in f.attributes[\"Parent\"]],\n                )\n")]),
    ("tempfile_mkstemp_other_suffix", [("create.py",
      "        tmp = tempfile.NamedTemporaryFile(delete=False, suffix=suffix).name\n        with open(tmp, \"w\") as fout:\n\n            # Here we look",
      "        _fd, tmp = tempfile.mkstemp(suffix=suffix + \".rel\", prefix=\"gffutils_\")\n        os.close(_fd)\n        with open(tmp, \"w\") as fout:\n\n            # Here we look")]),
    ("update_closes_its_connection", [("interface.py",
      "        # Read it back in directly from the stored autoincrements table\n        self._autoincrements.update(db._autoincrements)\n        return self\n",
      "        # Read it back in directly from the stored autoincrements table\n        self._autoincrements.update(db._autoincrements)\n        if isinstance(self.dbfn, str):\n            db.conn.close()\n        return self\n")]),
    ("featuretypes_sorted", [("interface.py",
      "            SELECT DISTINCT featuretype from features\n            \"\"\"\n        )\n        for (i,) in c:\n            yield i",
      "            SELECT DISTINCT featuretype from features ORDER BY featuretype\n            \"\"\"\n        )\n        for (i,) in c.fetchall():\n            yield i")]),
    ("merge_dedupe_keeps_order", [("create.py",
      "                for k, v in merged_attributes.items():\n                    merged_attributes[k] = list(set(v))",
      "                for k, v in merged_attributes.items():\n                    merged_attributes[k] = list(dict.fromkeys(v))")]),
    ("from_string_in_memory_no_tempfile", [("iterators.py",
      "    def open_function(self, data):\n        data = os.path.expanduser(data)\n",
      "    def open_function(self, data):\n        if getattr(self, \"_text\", None) is not None:\n            import io\n\n            return io.StringIO(self._text)\n        data = os.path.expanduser(data)\n"),
      ("iterators.py",
       "            try:\n                iterator = _FileIterator(**_kwargs)\n            except BaseException:\n                _remove_tempfile(tmp.name)\n                raise\n",
       "            _remove_tempfile(tmp.name)\n            _text = data.decode(\"utf-8\")\n\n            class _TextIterator(_FileIterator):\n                pass\n\n            _TextIterator._text = _text\n            try:\n                iterator = _TextIterator(**_kwargs)\n            except BaseException:\n                raise\n")]),
    ("delete_in_one_statement_each", [("interface.py",
      "            c.execute(query1, (_id,))\n            c.execute(query2, (_id, _id))\n",
      "            c.execute(query2, (_id, _id))\n            c.execute(query1, (_id,))\n")]),
    ("explicit_select_columns_in_count", [("interface.py",
      "                SELECT count() FROM features\n                WHERE featuretype = ?",
      "                SELECT count(id) FROM features\n                WHERE featuretype = ?")]),
    ("relation_queries_materialised", [("interface.py",
      "        query = query.replace(\"SELECT\", \"SELECT DISTINCT\")\n        for i in self._execute(query, args):\n            yield self._feature_returner(**i)",
      "        query = query.replace(\"SELECT\", \"SELECT DISTINCT\")\n        for i in self._execute(query, args).fetchall():\n            yield self._feature_returner(**i)")]),
    ("all_features_fetchmany_own_cursor", [("interface.py",
      "        for i in self._execute(query, args):\n            yield self._feature_returner(**i)\n\n    def featuretypes(self):",
      "        cur = self._execute(query, args)\n        while True:\n            rows = cur.fetchmany(50)\n            if not rows:\n                break\n            for i in rows:\n                yield self._feature_returner(**i)\n\n    def featuretypes(self):")]),
    ("delete_rolls_back_on_error", [("interface.py",
      "        for feature in features:\n            if isinstance(feature, str):\n                _id = feature\n            else:\n                _id = feature.id\n            c.execute(query1, (_id,))\n            c.execute(query2, (_id, _id))\n        self.conn.commit()\n        return self\n",
      "        try:\n            for feature in features:\n                if isinstance(feature, str):\n                    _id = feature\n                else:\n                    _id = feature.id\n                c.execute(query1, (_id,))\n                c.execute(query2, (_id, _id))\n        except Exception:\n            self.conn.rollback()\n            raise\n        self.conn.commit()\n        return self\n")]),
    ("gff_relations_tempfile_in_private_dir", [("create.py",
      "        tmp = tempfile.NamedTemporaryFile(delete=False, suffix=suffix).name\n        with open(tmp, \"w\") as fout:\n\n            # Here we look",
      "        _tmpdir = tempfile.mkdtemp(prefix=\"gffutils_\")\n        tmp = os.path.join(_tmpdir, \"relations\" + suffix)\n        with open(tmp, \"w\") as fout:\n\n            # Here we look"),
      ("create.py",
       "        self.conn.commit()\n\n        if not self._keep_tempfiles:\n            os.unlink(fout.name)\n",
       "        self.conn.commit()\n\n        if not self._keep_tempfiles:\n            os.unlink(fout.name)\n            os.rmdir(_tmpdir)\n")]),
    ("open_runs_analyze_when_missing", [("interface.py",
      "        if not self._analyzed():\n            warnings.warn(",
      "        if not self._analyzed():\n            self.analyze()\n        if False:\n            warnings.warn(")]),
    ("gff_populate_and_relations_one_transaction", [("create.py",
      "            raise EmptyInputError(\"No lines parsed -- was an empty file provided?\")\n\n        self.conn.commit()\n",
      "            raise EmptyInputError(\"No lines parsed -- was an empty file provided?\")\n\n")]),
    ("backup_via_copyfile_then_copystat", [("interface.py",
      "        if make_backup:\n            if isinstance(self.dbfn, str):\n                shutil.copy2(self.dbfn, self.dbfn + \".bak\")\n\n        # get iterator-specific kwargs",
      "        if make_backup:\n            if isinstance(self.dbfn, str):\n                shutil.copyfile(self.dbfn, self.dbfn + \".bak\")\n                shutil.copystat(self.dbfn, self.dbfn + \".bak\")\n\n        # get iterator-specific kwargs")]),
]


def sh(cmd, env=None, timeout=3000):
    p = subprocess.run(cmd, shell=True, env=env, capture_output=True, text=True, timeout=timeout)
    return p.returncode, p.stdout + p.stderr


def main():
    want = set(sys.argv[1:])
    os.makedirs(SCRATCH, exist_ok=True)
    report = []
    for name, patches in B:
        if want and name not in want:
            continue
        d = os.path.join(SCRATCH, name)
        shutil.rmtree(d, ignore_errors=True)
        os.makedirs(d)
        shutil.copytree("/repo/gffutils", os.path.join(d, "gffutils"))
        ok = True
        for fn, old, new in patches:
            p = os.path.join(d, "gffutils", fn)
            s = open(p).read()
            if s.count(old) != 1:
                ok = False
                print("%-36s patch for %s does not apply (%d matches)" % (name, fn, s.count(old)))
                break
            open(p, "w").write(s.replace(old, new))
        if not ok:
            report.append({"change": name, "status": "PATCH-DOES-NOT-APPLY"})
            shutil.rmtree(d, ignore_errors=True)
            continue
        env = dict(os.environ, PYTHONPATH=d, VERIF_REPO=d + "/", PYTHONHASHSEED="0")
        os.makedirs(os.path.join(d, "pytmp"), exist_ok=True)  # the suite leaves temp files behind: keep them in the scratch copy
        rc, out = sh("cd %s && /venv/bin/python -m pytest -q -p no:cacheprovider --timeout=900 --continue-on-collection-errors gffutils 2>&1 | tail -1" % d, dict(env, TMPDIR=os.path.join(d, "pytmp")))
        tests = out.strip().splitlines()[-1] if out.strip() else "?"
        res = {}
        for cid in ALL:
            rc, out = sh("cd %s && /venv/bin/python checks/run.py %s --tier quick" % (ROOT, cid),
                         dict(env, VERIF_EVIDENCE_DIR=os.path.join(d, "evidence"), VERIF_REPLAY_DIR=os.path.join(d, "replays"), VERIF_SHRINK="25"))
            viol = [l for l in out.splitlines() if l.startswith("violation:")]
            res[cid] = {"rc": rc, "first": viol[0][:400] if viol else None}
        alarms = sorted(c for c, v in res.items() if v["rc"] != 0)
        report.append({"change": name, "tests": tests, "alarms": alarms, "checks": res})
        print("%-36s tests:%-26s alarms:%s" % (name, tests[:26], alarms or "none"))
        for c in alarms:
            print("      %s: %s" % (c, res[c]["first"]))
        shutil.rmtree(d, ignore_errors=True)
    if not want:
        with open(os.path.join(HERE, "benign_report.json"), "w") as fh:
            json.dump(report, fh, indent=1)
    return 1 if any(r.get("alarms") or r.get("status") for r in report) else 0


if __name__ == "__main__":
    sys.exit(main())
